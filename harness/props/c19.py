"""C19 -- index-based incremental refitting equals retraining from scratch.

Coq: Props/C19.v.  Tie: functional correspondence on operation sequences.  The
wrapped classifier is a multiset-recording scripted classifier (its fitted state
is exactly the list of batches it has been shown through fit / partial_fit), so the
wrapper's current and base model are compared with the Gallina model's state after
EVERY operation, in both modes (native partial_fit / emulated by refitting) and
with / without enforce_unique_samples; error classes are compared too.  For the
Parzen window classifier the wrapper's predictions (with and without the
precomputed-kernel speed-up, several kernels) are compared with a fresh clone
trained on the implied training data."""
import json
import warnings

import numpy as np

from ..core import blit, err_class, listlit, natlit, zlit

IMPORTS = "From V Require Import Base.OptOrder Model.PoolQuery Model.IndexWrapper Harness.Run Harness.IndexCheck."
NAN = float("nan")
_REC = None


def rec_cls(native):
    """Scripted classifier whose state is the list of batches it has been shown."""
    global _REC
    if _REC is None:
        from skactiveml.base import SkactivemlClassifier

        class RecBase(SkactivemlClassifier):
            def __init__(self, classes=None, missing_label=np.nan, cost_matrix=None, random_state=None):
                super().__init__(classes=classes, missing_label=missing_label, cost_matrix=cost_matrix, random_state=random_state)

            def _rows(self, X, y, sw):
                X, y = np.asarray(X), np.asarray(y, dtype=float)
                return [(int(round(X[i, 0])), -1 if np.isnan(y[i]) else int(y[i]), None if sw is None else int(round(float(sw[i]) * 8))) for i in range(len(X))]

            def fit(self, X, y, sample_weight=None):
                self._validate_data(X, y, sample_weight)
                self.batches_ = [self._rows(X, y, sample_weight)]
                return self

            def predict_proba(self, X):
                return np.full((len(X), len(self.classes_)), 1 / len(self.classes_))

        class RecNative(RecBase):
            def partial_fit(self, X, y, sample_weight=None):
                if not hasattr(self, "batches_"):
                    return self.fit(X, y, sample_weight)
                self.batches_ = self.batches_ + [self._rows(X, y, sample_weight)]
                return self
        _REC = (RecBase, RecNative)
    return _REC[1 if native else 0]


def tri(t):
    return f"({natlit(t[0])}, {zlit(t[1])}, {'None' if t[2] is None else '(Some ' + zlit(t[2]) + ')'})"


def batches(m):
    if m is None:
        return "None"
    return "(Some " + listlit([listlit([tri(t) for t in b]) for b in m]) + ")"


def snapshot(w):
    cur = getattr(w.__dict__.get("clf_"), "batches_", None) if "clf_" in w.__dict__ else None
    base = getattr(w.__dict__.get("base_clf_"), "batches_", None) if "base_clf_" in w.__dict__ else None
    return cur, base


def run(ctx):
    from sklearn.exceptions import NotFittedError
    from skactiveml.pool.utils import IndexClassifierWrapper
    warnings.simplefilter("ignore")
    ctx.extra["rule"] = ("seeded operation sequences (<= 8 ops: fit / partial_fit from the current or the base model, with / without set_base_clf, "
                         "label overrides, explicit / default / no weights, duplicated indices) x {native partial_fit, emulated} x {enforce_unique_samples}; "
                         "state of current and base model compared after every operation; non-trivial = sequence with a partial_fit from the base "
                         "model after the current model moved on; distinct = (flags, ops)")
    ctx.trusted += ["the recording classifier (its state is the list of batches shown to it); sklearn's clone/deepcopy"]
    ctx.assume += ["native partial_fit + enforce_unique_samples is documented by the wrapper (warning) as not guaranteeing uniqueness: only the duplicate check is compared there"]
    ctx.coq_props()
    from ..kcache import kcache_correspondence
    kcache_correspondence(ctx)
    rng = ctx.rng("c19")
    terms, meta = [], []
    for h in range(250 if ctx.is_quick else 4000):
        n = int(rng.integers(4, 9))
        X = np.column_stack([np.arange(n, dtype=float), rng.integers(0, 3, size=n).astype(float)])
        y = rng.integers(0, 2, size=n).astype(float)
        y[rng.random(n) < 0.4] = np.nan
        native = bool(rng.integers(0, 2))
        uniq = bool(rng.integers(0, 2))
        has_sw = bool(rng.integers(0, 2))
        sw = rng.integers(1, 17, size=n) / 8.0 if has_sw else None
        clf = rec_cls(native)(classes=[0, 1])
        w = IndexClassifierWrapper(clf, X, y, sample_weight=sw, enforce_unique_samples=uniq, ignore_partial_fit=False)
        ops, nontriv, moved = [], False, False
        for step in range(int(rng.integers(1, 9))):
            k = int(rng.integers(1, 4))
            idx = rng.choice(n, size=k, replace=rng.random() < 0.15)
            yo = None if rng.random() < 0.6 else rng.integers(0, 2, size=k).astype(float)
            wo = None if rng.random() < (0.7 if has_sw else 0.85) else rng.integers(1, 17, size=k) / 8.0
            sb = bool(rng.random() < 0.3)
            is_fit = step == 0 or rng.random() < 0.25
            ub = bool(rng.random() < 0.4)
            y_used = y[idx] if yo is None else yo
            w_used = (sw[idx] if sw is not None else None) if wo is None else wo
            b = [(int(i), -1 if np.isnan(y_used[j]) else int(y_used[j]), None if w_used is None else int(round(float(w_used[j]) * 8))) for j, i in enumerate(idx)]
            bl = listlit([tri(t) for t in b])
            opt = f"OFit {bl} {blit(sb)}" if is_fit else f"OPartial {bl} {blit(ub)} {blit(sb)}"
            try:
                if is_fit:
                    w.fit(idx, y=yo, sample_weight=wo, set_base_clf=sb)
                else:
                    w.partial_fit(idx, y=yo, sample_weight=wo, use_base_clf=ub, set_base_clf=sb)
                    if ub and moved:
                        nontriv = True
                    moved = True
                cur, base = snapshot(w)
                ops.append(f"({opt}, (Some ({batches(cur)}, {batches(base)}), 0%nat))")
                # emulated mode: the wrapper's own arrays must describe the same single batch
                if not native and cur is not None:
                    own = [(int(i), -1 if np.isnan(v) else int(v), None if w.sample_weight_ is None else int(round(float(w.sample_weight_[j]) * 8)))
                           for j, (i, v) in enumerate(zip(w.idx_, np.asarray(w.y_, dtype=float)))]
                    if [own] != cur:
                        ctx.violation("IndexClassifierWrapper", "arrays_vs_model", f"idx_/y_/sample_weight_ {own} but the classifier was fitted on {cur}",
                                      {"ops": ops}, what="idx_/y_/sample_weight_ do not describe what the wrapped classifier was trained on")
            except NotFittedError:
                ops.append(f"({opt}, (None, 0%nat))")
                break
            except ValueError as e:
                code = 1 if "same value" in str(e) or "unique" in str(e).lower() or "different indices" in str(e) else 2
                ops.append(f"({opt}, (None, {natlit(code)}))")
                break
            except Exception as e:
                ctx.violation("IndexClassifierWrapper", "exception", repr(e), {"native": native, "unique": uniq, "ops": ops, "failing": opt},
                              what=f"IndexClassifierWrapper raised {err_class(e)}")
                ops = None
                break
        if ops is None:
            continue
        ctx.count("IndexClassifierWrapper_ops", len(ops))
        ctx.hist[f"native={native},unique={uniq},sw={has_sw}"] += 1
        if nontriv:
            ctx.nontriv((native, uniq, tuple(ops)))
        terms.append(f"({blit(native)}, {blit(uniq)}, {listlit(ops)})")
        meta.append({"native_partial_fit": native, "enforce_unique_samples": uniq, "ops": ops})
    bad, err = ctx.coq_eval_cases("idx", IMPORTS, "check_idx", terms, chunk=400)
    if err:
        ctx.violation("IndexClassifierWrapper", "model_eval_failed", err, {}, found_input=False, what="Coq evaluation of check_idx failed")
    for i in bad[:5]:
        ctx.violation("IndexClassifierWrapper", "model_mismatch", "training data of the current / base model after some operation differs from Model/IndexWrapper.v",
                      meta[i], found_input=True,
                      what="IndexClassifierWrapper: the wrapped classifier was not trained on the implied multiset (current/base model differs from the book-keeping model)")
    if meta:
        ctx.sample(meta[len(meta) // 2])
    pwc_predictions(ctx)
    real_classifiers(ctx)
    skactiveml_classifiers(ctx)
    ctx.extra["exhaustive"] = False


def pwc_predictions(ctx):
    """wrapper (speed-up on/off) vs a fresh clone trained on the implied training data."""
    from sklearn.base import clone
    from skactiveml.classifier import ParzenWindowClassifier
    from skactiveml.pool.utils import IndexClassifierWrapper
    rng = ctx.rng("pwc")
    kernels = [dict(metric="rbf", metric_dict=None), dict(metric="rbf", metric_dict={"gamma": 2.5}),
               dict(metric="polynomial", metric_dict={"degree": 2, "coef0": 0.5}), dict(metric="linear", metric_dict=None)]
    for h in range(60 if ctx.is_quick else 800):
        n = int(rng.integers(5, 10))
        X = rng.normal(size=(n, 2))
        y = rng.integers(0, 2, size=n).astype(float)
        y[rng.random(n) < 0.3] = np.nan
        kern = kernels[h % len(kernels)]
        speed = bool(h % 2)
        uniq = bool(rng.integers(0, 2))
        clf = ParzenWindowClassifier(classes=[0, 1], **kern)
        w = IndexClassifierWrapper(clf, X, y, enforce_unique_samples=uniq, use_speed_up=speed)
        allidx = np.arange(n)
        if speed:
            w.precompute(allidx, allidx)
        try:
            i0 = rng.choice(n, size=int(rng.integers(1, 4)), replace=False)
            w.fit(i0, set_base_clf=True)
            for _ in range(int(rng.integers(1, 4))):
                add = rng.choice(n, size=int(rng.integers(1, 3)), replace=False)
                yo = rng.integers(0, 2, size=len(add)).astype(float) if rng.random() < 0.5 else None
                w.partial_fit(add, y=yo, use_base_clf=bool(rng.random() < 0.4))
            # prediction indices in any order and with repetitions (row i of the result belongs to the i-th index given)
            pidx = allidx if h % 3 == 0 else (rng.permutation(n) if h % 3 == 1 else rng.integers(0, n, size=n + 2))
            P = w.predict_proba(pidx)
            F = w.predict_freq(pidx) if hasattr(w, "predict_freq") and not speed else None
        except Exception as e:
            ctx.violation("IndexClassifierWrapper[PWC]", "exception", repr(e), {"kernel": repr(kern), "speed_up": speed}, what=f"wrapper raised {err_class(e)}")
            continue
        ref = clone(clf).fit(X[w.idx_], w.y_, w.sample_weight_)
        Pr = ref.predict_proba(X)[pidx]
        ctx.count("pwc_predictions")
        if np.shape(P) != np.shape(Pr):
            ctx.violation("IndexClassifierWrapper[PWC]", "prediction_differs", f"predict_proba for {len(pidx)} indices has shape {np.shape(P)}",
                          {"X": X.tolist(), "y": [None if np.isnan(v) else v for v in y], "kernel": repr(kern), "speed_up": speed, "predict_indices": np.asarray(pidx).tolist()},
                          what=f"IndexClassifierWrapper around ParzenWindowClassifier (use_speed_up={speed}): predict_proba returns {np.shape(P)[0]} rows for {len(pidx)} indices (unsorted / repeated indices)")
            continue
        if speed:
            ctx.nontriv(("pwc", X.tobytes(), y.tobytes(), repr(kern), uniq))
        if not np.allclose(P, Pr, rtol=1e-9, atol=1e-12):
            ctx.violation("IndexClassifierWrapper[PWC]", "prediction_differs",
                          f"max |diff| = {np.max(np.abs(P - Pr)):.3g} (kernel {kern}, use_speed_up={speed})",
                          {"X": X.tolist(), "y": [None if np.isnan(v) else v for v in y], "kernel": repr(kern), "speed_up": speed,
                           "idx_": w.idx_.tolist(), "y_": [None if np.isnan(v) else v for v in np.asarray(w.y_, dtype=float)], "predict_indices": np.asarray(pidx).tolist()},
                          what=f"IndexClassifierWrapper around ParzenWindowClassifier (use_speed_up={speed}, {kern}) predicts differently from a fresh clone trained on the implied data")


def real_classifiers(ctx):
    """IndexClassifierWrapper around real scikit-learn estimators on the emulated-refit path (no native partial_fit, or
    ignore_partial_fit=True): after fit / partial_fit (from the current or the base model) / fit again, predictions equal those of
    a fresh clone trained once on the implied training data.  warm_start=True estimators would continue from their previous
    solution if any layer ever fitted the same estimator object twice."""
    from sklearn.base import clone
    from sklearn.ensemble import RandomForestClassifier
    from sklearn.linear_model import SGDClassifier
    from sklearn.naive_bayes import GaussianNB
    from sklearn.tree import DecisionTreeClassifier
    from skactiveml.classifier import SklearnClassifier
    from skactiveml.pool.utils import IndexClassifierWrapper
    rng = ctx.rng("realclf")
    mks = [("DecisionTree", lambda s: DecisionTreeClassifier(random_state=s), {}),
           ("RandomForest[warm_start]", lambda s: RandomForestClassifier(n_estimators=4, warm_start=True, random_state=s), {}),
           ("SGD[warm_start]", lambda s: SGDClassifier(loss="log_loss", warm_start=True, max_iter=30, tol=None, random_state=s), {"ignore_partial_fit": True}),
           ("GaussianNB[ignore_partial_fit]", lambda s: GaussianNB(), {"ignore_partial_fit": True})]
    for h in range(40 if ctx.is_quick else 400):
        name, mk, wkw = mks[h % len(mks)]
        n = int(rng.integers(8, 14))
        X = rng.normal(size=(n, 2)) + rng.integers(0, 2, size=(n, 1)) * 2
        y = rng.integers(0, 2, size=n).astype(float)
        y[:2] = [0.0, 1.0]
        seed = int(rng.integers(0, 1000))
        clf = SklearnClassifier(mk(seed), classes=[0, 1], random_state=seed)
        uniq = bool(rng.integers(0, 2))
        ops = []
        try:
            w = IndexClassifierWrapper(clf, X, y, enforce_unique_samples=uniq, **wkw)
            i0 = np.concatenate([[0, 1], rng.choice(np.arange(2, n), size=int(rng.integers(1, 4)), replace=False)])
            w.fit(i0, set_base_clf=True)
            ops.append(("fit", i0.tolist()))
            for _ in range(int(rng.integers(1, 4))):
                if rng.random() < 0.3:
                    i1 = np.concatenate([[0, 1], rng.choice(np.arange(2, n), size=int(rng.integers(1, 5)), replace=False)])
                    w.fit(i1)
                    ops.append(("fit", i1.tolist()))
                else:
                    add = rng.choice(n, size=int(rng.integers(1, 3)), replace=False)
                    ub = bool(rng.random() < 0.4)
                    w.partial_fit(add, use_base_clf=ub)
                    ops.append(("partial_fit", add.tolist(), ub))
            P = np.asarray(w.predict_proba(np.arange(n)), dtype=float)
            ref = clone(clf).fit(X[w.idx_], w.y_, w.sample_weight_)
            Pr = np.asarray(ref.predict_proba(X), dtype=float)
        except Exception as e:
            ctx.violation(f"IndexClassifierWrapper[{name}]", "exception", repr(e)[:300], {"ops": ops, "seed": seed}, what=f"wrapper around {name} raised {err_class(e)}")
            continue
        ctx.count("real_classifier:" + name)
        if len(ops) >= 2:
            ctx.nontriv(("real", name, X.tobytes(), repr(ops), seed))
        if not np.allclose(P, Pr, rtol=1e-9, atol=1e-12):
            ctx.violation(f"IndexClassifierWrapper[{name}]", "prediction_differs", f"max |diff| = {np.max(np.abs(P - Pr)):.3g} after {ops}",
                          {"X": X.tolist(), "y": y.tolist(), "ops": ops, "seed": seed, "enforce_unique_samples": uniq, "idx_": np.asarray(w.idx_).tolist()},
                          what=f"IndexClassifierWrapper around SklearnClassifier({name}) predicts differently from a fresh copy trained on the implied data (history {ops})")


def skactiveml_classifiers(ctx):
    """IndexClassifierWrapper around the library's own classifiers with PARTIALLY LABELED y: fit on index sets that may be purely
    unlabeled, partial_fit, fit again; predictions equal a fresh clone fitted once on (X[idx_], y_) - in particular a fit on
    unlabeled indices only forgets whatever an earlier fit left in the model."""
    from sklearn.base import clone
    from sklearn.mixture import GaussianMixture
    from skactiveml.classifier import MixtureModelClassifier, ParzenWindowClassifier, SlidingWindowClassifier
    from skactiveml.pool.utils import IndexClassifierWrapper
    rng = ctx.rng("skclf")
    mks = [("ParzenWindowClassifier", lambda s: ParzenWindowClassifier(classes=[0, 1], random_state=s)),
           ("SlidingWindowClassifier[only_labeled]", lambda s: SlidingWindowClassifier(ParzenWindowClassifier(classes=[0, 1], random_state=s), classes=[0, 1], only_labeled=True, random_state=s)),
           ("SlidingWindowClassifier", lambda s: SlidingWindowClassifier(ParzenWindowClassifier(classes=[0, 1], random_state=s), classes=[0, 1], random_state=s)),
           # an UNFITTED mixture is estimated by every fit on the data of that fit (a refit must not keep the mixture of an earlier fit)
           ("MixtureModelClassifier[unfitted mixture]", lambda s: MixtureModelClassifier(mixture_model=GaussianMixture(n_components=2, random_state=s), classes=[0, 1], random_state=s))]
    for h in range(60 if ctx.is_quick else 600):
        name, mk = mks[h % len(mks)]
        n = int(rng.integers(8, 14))
        X = rng.normal(size=(n, 2)) + rng.integers(0, 2, size=(n, 1)) * 2
        y = rng.integers(0, 2, size=n).astype(float)
        y[:2] = [0.0, 1.0]
        unl = np.arange(n // 2, n)
        y[unl] = np.nan
        seed = int(rng.integers(0, 1000))
        clf = mk(seed)
        ipf = bool(h % 2)
        ops = []
        lo = 3 if "Mixture" in name else 1        # a two-component mixture needs at least two samples
        try:
            w = IndexClassifierWrapper(clf, X, y, ignore_partial_fit=ipf)
            i0 = np.concatenate([[0, 1], rng.choice(np.arange(2, n), size=int(rng.integers(1, 4)), replace=False)])
            w.fit(i0, set_base_clf=bool(h % 3 == 0))
            ops.append(("fit", i0.tolist()))
            implied = list(i0)
            for k in range(int(rng.integers(1, 4))):
                r = rng.random()
                if r < 0.45:
                    i1 = rng.choice(unl, size=int(rng.integers(lo, 4)), replace=False)      # purely unlabeled indices
                    w.fit(i1)
                    ops.append(("fit", i1.tolist()))
                    implied = list(i1)
                elif r < 0.6:
                    i1 = rng.choice(n, size=int(rng.integers(lo, 5)), replace=False)
                    w.fit(i1)
                    ops.append(("fit", i1.tolist()))
                    implied = list(i1)
                else:
                    add = rng.choice(n, size=int(rng.integers(1, 3)), replace=False)
                    w.partial_fit(add)
                    ops.append(("partial_fit", add.tolist()))
                    implied += list(add)
            P = np.asarray(w.predict_proba(np.arange(n)), dtype=float)
            # the natively incremental path keeps no idx_: the implied data is what the calls fed (a fit starts again)
            imp = np.asarray(w.__dict__["idx_"] if "idx_" in w.__dict__ else implied, dtype=int)
            ref = clone(clf).fit(X[imp], y[imp])
            Pr = np.asarray(ref.predict_proba(X), dtype=float)
        except Exception as e:
            ctx.violation(f"IndexClassifierWrapper[{name}]", "exception", repr(e)[:300], {"ops": ops, "seed": seed}, what=f"wrapper around {name} raised {err_class(e)}")
            continue
        ctx.count("skactiveml_classifier:" + name)
        if len(ops) >= 2:
            ctx.nontriv(("skclf", name, X.tobytes(), repr(ops), seed))
        if not np.allclose(P, Pr, rtol=1e-9, atol=1e-12):
            ctx.violation(f"IndexClassifierWrapper[{name}]", "prediction_differs", f"max |diff| = {np.max(np.abs(P - Pr)):.3g} after {ops}",
                          {"X": X.tolist(), "y": [None if v != v else v for v in y], "ops": ops, "seed": seed, "ignore_partial_fit": ipf, "implied_idx": imp.tolist()},
                          what=f"IndexClassifierWrapper around {name} predicts differently from a fresh copy fitted on the implied data (history {ops})")


def replay(ctx, path):
    print(json.dumps(json.load(open(path))["case"], indent=1, default=str)[:2500])
    run(ctx)
