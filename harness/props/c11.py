"""C11 -- classifier outputs are valid probabilities and consistent decisions.

Coq: Props/C11.v (exact arithmetic).  Tie: (i) functional correspondence of the
three mechanisms with Model/ClassProba.v - frequency normalisation (the
classifier's own predict_freq and class prior taken as exact rationals), column
re-mapping of SklearnClassifier.predict_proba with a scripted estimator whose
probabilities are dyadic (exact in binary64), and the permutation of the user's
cost matrix onto the sorted class order; (ii) the statement's oracle on every
classifier of the package: finite, non-negative rows summing to one, columns in
classes_ order, predict in classes_ and of minimal expected cost w.r.t. the
configured cost matrix, uniform distribution with declared classes and no labels."""
import json
import warnings
from fractions import Fraction

import numpy as np

from ..core import err_class, listlit, natlit, qlit, zlist

IMPORTS = "From V Require Import Base.OptOrder Model.Sel Model.Label Model.ClassProba Harness.Run Harness.ProbaCheck."
NAN = float("nan")


def qrow(r):
    return listlit([qlit(Fraction(float(x))) for x in r])


def scripted_est():
    from sklearn.base import BaseEstimator, ClassifierMixin

    class Scripted(ClassifierMixin, BaseEstimator):
        """sklearn-style classifier: classes_ = classes seen; probabilities dyadic functions of X."""
        def __init__(self, salt=0):
            self.salt = salt

        def fit(self, X, y, sample_weight=None):
            self.classes_ = np.unique(y)
            return self

        def predict_proba(self, X):
            k = len(self.classes_)
            P = np.zeros((len(X), k))
            for i, x in enumerate(np.asarray(X, dtype=float)):
                h = int(abs(np.floor(x.sum() * 2 + self.salt))) % 8
                w = np.array([((h + 3 * j) % 4) + 1 for j in range(k)], dtype=float)
                w = np.floor(w / w.sum() * 8) / 8
                w[0] += 1 - w.sum()
                P[i] = w
            return P

        def predict(self, X):
            return self.classes_[np.argmax(self.predict_proba(X), axis=1)]
    return Scripted


def classifiers(classes, cost, seed):
    from sklearn.linear_model import LogisticRegression, SGDClassifier
    from sklearn.mixture import BayesianGaussianMixture, GaussianMixture
    from sklearn.naive_bayes import GaussianNB
    from sklearn.tree import DecisionTreeClassifier
    from skactiveml.classifier import MixtureModelClassifier, ParzenWindowClassifier, SklearnClassifier, SlidingWindowClassifier
    from skactiveml.classifier.multiannotator import AnnotatorEnsembleClassifier, AnnotatorLogisticRegression
    kw = dict(classes=classes, cost_matrix=cost, random_state=seed)
    out = [
        ("ParzenWindowClassifier", ParzenWindowClassifier(**kw), False),
        ("ParzenWindowClassifier[prior]", ParzenWindowClassifier(class_prior=0.5, **kw), False),
        ("ParzenWindowClassifier[gamma=mean]", ParzenWindowClassifier(metric_dict={"gamma": "mean"}, **kw), False),
        ("SlidingWindowClassifier[gamma=mean]", SlidingWindowClassifier(ParzenWindowClassifier(metric_dict={"gamma": "mean"}, **kw), **kw), False),
        ("MixtureModelClassifier", MixtureModelClassifier(mixture_model=BayesianGaussianMixture(n_components=2, random_state=seed), **kw), False),
        ("SklearnClassifier[GaussianNB]", SklearnClassifier(GaussianNB(), **kw), False),
        ("SklearnClassifier[LogisticRegression]", SklearnClassifier(LogisticRegression(), **kw), False),
        ("SklearnClassifier[DecisionTree]", SklearnClassifier(DecisionTreeClassifier(random_state=seed), **kw), False),
        ("SklearnClassifier[Scripted]", SklearnClassifier(scripted_est()(salt=seed), **kw), False),
        ("SklearnClassifier[SGD,partial_fit]", SklearnClassifier(SGDClassifier(loss="log_loss", random_state=seed), **kw), False),
        ("SlidingWindowClassifier", SlidingWindowClassifier(ParzenWindowClassifier(**kw), **kw), False),
        ("AnnotatorEnsembleClassifier", AnnotatorEnsembleClassifier(estimators=[(f"c{i}", ParzenWindowClassifier(random_state=seed)) for i in range(2)], **kw), True),
        ("AnnotatorLogisticRegression", AnnotatorLogisticRegression(n_annotators=2, **kw), True),
        # non-default parameters
        ("ParzenWindowClassifier[n_neighbors=2]", ParzenWindowClassifier(n_neighbors=2, **kw), False),
        ("ParzenWindowClassifier[laplacian]", ParzenWindowClassifier(metric="laplacian", metric_dict={"gamma": 0.5}, **kw), False),
        ("ParzenWindowClassifier[class_prior=vector]", ParzenWindowClassifier(class_prior=[0.5 + i for i in range(len(classes))], **kw), False),
        ("MixtureModelClassifier[similarities]", MixtureModelClassifier(mixture_model=BayesianGaussianMixture(n_components=2, random_state=seed), weight_mode="similarities", class_prior=0.5, **kw), False),
        ("MixtureModelClassifier[GaussianMixture,similarities]", MixtureModelClassifier(mixture_model=GaussianMixture(n_components=2, random_state=seed), weight_mode="similarities", **kw), False),
        ("MixtureModelClassifier[GaussianMixture]", MixtureModelClassifier(mixture_model=GaussianMixture(n_components=2, random_state=seed), **kw), False),
        # classes NOT declared: classes_ is whatever the (last) training batch shows; the outputs must be consistent with it
        ("SklearnClassifier[GaussianNB,partial_fit,classes=None]", SklearnClassifier(GaussianNB(), random_state=seed), False),
        ("SklearnClassifier[SGD,partial_fit,classes=None]", SklearnClassifier(SGDClassifier(loss="log_loss", random_state=seed), random_state=seed), False),
        ("SklearnClassifier[GaussianNB,classes=None]", SklearnClassifier(GaussianNB(), random_state=seed), False),
        ("ParzenWindowClassifier[classes=None]", ParzenWindowClassifier(random_state=seed), False),
        ("SlidingWindowClassifier[window=4,only_labeled]", SlidingWindowClassifier(ParzenWindowClassifier(**kw), window_size=4, only_labeled=True, **kw), False),
        ("AnnotatorEnsembleClassifier[soft]", AnnotatorEnsembleClassifier(estimators=[(f"c{i}", ParzenWindowClassifier(random_state=seed)) for i in range(2)], voting="soft", **kw), True),
        ("AnnotatorLogisticRegression[no_intercept,priors]", AnnotatorLogisticRegression(n_annotators=2, fit_intercept=False, annot_prior_full=2, annot_prior_diag=1, weights_prior=0.5, max_iter=20, **kw), True),
    ]
    return out


def run(ctx):
    warnings.simplefilter("ignore")
    ctx.extra["rule"] = ("13 classifier configurations x class lists (sorted, unsorted declared order, strings, non 0..K-1 numbers) x cost matrices (None, "
                         "asymmetric integer) x training sets (no labels, exactly one label, one class present, declared-but-unseen classes, zero / large weights) x query "
                         "points near and far; scripted sklearn estimator with dyadic probabilities for the column re-mapping; non-trivial = >= 3 classes "
                         "or an asymmetric cost matrix; distinct = (classifier, classes, cost, data)")
    ctx.trusted += ["probability VALUES of real estimators are inputs (oracles); what is modelled is normalisation, column re-mapping, cost permutation and decision"]
    ctx.assume += ["probabilities compared with the exact-rational model within 1e-12; decisions must lie in the arg-min set of the expected cost widened by 1e-9"]
    ctx.coq_props()
    rng = ctx.rng("c11")
    fterms, rterms, cterms = [], [], []
    class_lists = [[0, 1], [0, 1, 2], [10, 20, 30], [2, 0, 1], [30, 10, 20], ["b", "c", "a"], ["no", "yes"]]
    for h in range(40 if ctx.is_quick else 400):
        classes = class_lists[h % len(class_lists)]
        K = len(classes)
        sorted_cls = sorted(classes)
        cost = None if h % 3 == 0 else (rng.integers(0, 5, size=(K, K)).astype(float) * (1 - np.eye(K)))
        if cost is not None and cost.sum() == 0:
            cost[0, K - 1] = 2.0
        seed = int(rng.integers(0, 1000))
        n = int(rng.integers(4, 12))
        X = rng.normal(size=(n, 2)) + rng.integers(0, 2, size=(n, 1)) * 3
        if h % 4 == 1:          # exact replicates of a few points (mixture components collapse onto them; zero distances / kernel ties)
            base = rng.normal(size=(int(rng.integers(2, 4)), 2)) * 2
            X = base[rng.integers(0, len(base), size=n)]
            X[: len(base)] = base
        scen = str(rng.choice(["normal", "no_labels", "one_label", "one_class", "unseen", "weights"]))
        present = sorted_cls if scen in ("normal", "weights", "one_label") else ([] if scen == "no_labels" else sorted_cls[:1] if scen == "one_class" else sorted_cls[:-1])
        str_lab = isinstance(classes[0], str)
        missing = "nan" if str_lab else NAN
        yv = [present[int(rng.integers(len(present)))] if present and rng.random() < 0.7 else missing for _ in range(n)]
        if scen == "one_label":          # exactly one labeled sample (bandwidth heuristics, priors and encoders at their smallest input)
            yv = [missing] * n
            yv[int(rng.integers(n))] = sorted_cls[int(rng.integers(K))]
        y = np.array(yv, dtype=(str if str_lab else float)) if not str_lab else np.array(yv)
        sw = rng.choice([0.0, 1.0, 1e6, 0.5], size=n) if scen == "weights" else None
        Xq = np.vstack([X if h % 4 == 1 else X[:3], rng.normal(size=(2, 2)) * 50])
        # representation of the inputs: C order / Fortran order / strided views / nested lists / float32
        from ..core import relayout
        rep = [0, 1, 3, 4, 5, 0][(h // 4) % 6]
        if rep in (1, 3):
            X, Xq = relayout(X, rep), relayout(Xq, rep)
        elif rep == 5:
            X, Xq = X.astype(np.float32).astype(float), Xq.astype(np.float32).astype(float)      # values representable in float32 ...
            X32, Xq32 = X.astype(np.float32), Xq.astype(np.float32)                                 # ... handed over as float32
        for name, clf, multi in classifiers(classes, cost, seed):
            if "GaussianNB" in name and h % 4 == 1:
                continue      # replicated points: zero variances, log-likelihoods of ~1e9 - scikit-learn's GaussianNB then normalises only to ~3e-5 (third-party numerics)
            clf.set_params(missing_label=missing)
            if "estimators" in clf.get_params():
                for _, e in clf.estimators:
                    e.set_params(missing_label=missing)
            if hasattr(clf, "estimator") and hasattr(clf.estimator, "missing_label"):
                clf.estimator.set_params(missing_label=missing)
            yy = np.column_stack([y, y[::-1]]) if multi else y
            ww = None if (sw is None or multi) else sw
            rc = {"classifier": name, "classes": classes, "cost_matrix": None if cost is None else cost.tolist(), "scenario": scen,
                  "X": X.tolist(), "y": [str(v) for v in yv], "sample_weight": None if sw is None else sw.tolist(), "seed": seed}
            try:
                if "partial_fit" in name:
                    clf.partial_fit(X[: n // 2], yy[: n // 2], **({} if ww is None else {"sample_weight": ww[: n // 2]}))
                    clf.partial_fit(X[n // 2:], yy[n // 2:], **({} if ww is None else {"sample_weight": ww[n // 2:]}))
                elif ww is None:
                    clf.fit(X.tolist() if rep == 4 else X, yy.tolist() if rep == 4 else yy)
                else:
                    clf.fit(X, yy, sample_weight=ww)
                P = np.asarray(clf.predict_proba(Xq.tolist() if rep == 4 else Xq), dtype=float)
                pred = np.asarray(clf.predict(Xq))
            except Exception as e:
                if scen == "weights" and isinstance(e, (ValueError, ZeroDivisionError, FloatingPointError)) and "Sklearn" in name:
                    continue   # the wrapped sklearn estimator may reject degenerate weights itself
                if "classes=None" in name and isinstance(e, ValueError):
                    lab_ = [v != missing and not (isinstance(v, float) and v != v) for v in yv]
                    if not any(lab_) or ("partial_fit" in name and (not any(lab_[: n // 2]) or not any(lab_[n // 2:]))):
                        ctx.hist["classes_unknown(documented ValueError)"] += 1
                        continue   # without declared classes a batch without any label carries no class information
                ctx.violation(name, "exception:" + err_class(e), repr(e)[:300], rc, what=f"{name}: fit/predict raised {err_class(e)} on an admissible training set ({scen})")
                continue
            ctx.count(name)
            ctx.hist[scen] += 1
            if K >= 3 or cost is not None:
                ctx.nontriv((name, repr(classes), None if cost is None else cost.tobytes(), X.tobytes(), repr(yv)))
            msg = oracle(clf, P, pred, classes, cost, scen, name, Xq)
            if msg is None and "classes=None" not in name and "partial_fit" not in name and scen != "no_labels" and h % 2 == 0:
                # the SAME object fitted again, now without a single label (declared classes): nothing of the earlier fit may survive
                try:
                    if isinstance(missing, str):          # wide enough for the sentinel (a narrow '<U2' array would truncate 'nan')
                        y0 = np.full(np.shape(yy), missing, dtype=f"<U{max(len(missing), np.asarray(yy).dtype.itemsize // 4, 1)}")
                    else:
                        y0 = np.full(np.shape(yy), np.nan)
                    import copy
                    used = copy.deepcopy(clf)          # the fitted object (all of its state), refitted
                    used.fit(X, y0)
                    P0 = np.asarray(used.predict_proba(Xq), dtype=float)
                    msg = oracle(used, P0, np.asarray(used.predict(Xq)), classes, cost, "no_labels", name, Xq)
                    if msg and getattr(used, "is_fitted_", True) is False:
                        clf = used                      # so that the recorded finding about un-fittable wrapped estimators is recognised
                    if msg:
                        msg = (msg[0], "object fitted before, then refitted without labels: " + msg[1])
                except Exception as e:
                    msg = ("exception_after_refit:" + err_class(e), f"refit without labels raised {repr(e)[:200]}")
            if msg:
                tags = {"wrapped_estimator_not_fitted"} if getattr(clf, "is_fitted_", True) is False else set()
                rc["tags"] = sorted(tags)
                ctx.violation(name, msg[0], msg[1], rc, what=f"{name}: {msg[1]}", tags=tags)
                continue
            # ---- correspondence with the Gallina model ----
            if hasattr(clf, "predict_freq") and hasattr(clf, "class_prior_") and not multi and "classes=None" not in name:
                F = np.asarray(clf.predict_freq(Xq), dtype=float)
                prior = np.broadcast_to(np.asarray(clf.class_prior_, dtype=float), (K,))
                for f, p in zip(F, P):
                    fterms.append(f"({natlit(K)}, {qrow(f)}, {qrow(prior)}, {qrow(p)})")
            if name == "SklearnClassifier[Scripted]" and getattr(clf, "is_fitted_", False):
                est = clf.estimator_
                Pe = est.predict_proba(Xq)
                code = {c: i for i, c in enumerate(sorted_cls)}
                for pe, p in zip(Pe, P):
                    rterms.append(f"({zlist([code[c] for c in clf.classes_.tolist()])}, {zlist([code[c] for c in est.classes_.tolist()])}, {qrow(pe)}, {qrow(p)})")
            if cost is not None and "classes=None" not in name:
                code = {c: i for i, c in enumerate(sorted_cls)}
                cterms.append(f"({zlist([code[c] for c in classes])}, {listlit([qrow(r) for r in cost])}, {listlit([qrow(r) for r in np.asarray(clf.cost_matrix_, dtype=float)])})")
    for tag, fn, terms in (("freq", "check_freq", fterms), ("remap", "check_remap", rterms), ("cost", "check_cost", cterms)):
        bad, err = ctx.coq_eval_cases(tag, IMPORTS, fn, terms, chunk=600)
        if err:
            ctx.violation(tag, "model_eval_failed", err, {}, found_input=False, what=f"Coq evaluation of {fn} failed")
        for i in bad[:4]:
            ctx.violation(tag, "model_mismatch", "implementation and Gallina model disagree", {"case": terms[i][:1500]}, found_input=False,
                          what=f"correspondence Model/ClassProba.v ({fn}) <-> implementation no longer holds")
        ctx.count("model:" + tag, len(terms))
    ctx.sample({"classes": class_lists[3], "note": "unsorted declared order; cost matrix given in declared order"})
    ctx.extra["exhaustive"] = False


def oracle(clf, P, pred, classes, cost, scen, name, Xq):
    K = len(classes)
    cls_ = list(np.asarray(clf.classes_).tolist())
    if "classes=None" in name:
        if cls_ != sorted(cls_) or len(set(cls_)) != len(cls_):
            return "classes_order", f"classes_ = {cls_} is not sorted / duplicate-free"
        K, classes, cost = len(cls_), cls_, None
    elif cls_ != sorted(classes):
        return "classes_order", f"classes_ = {cls_}, declared {classes}"
    if P.shape != (len(Xq), K):
        return "proba_shape", f"predict_proba shape {P.shape}"
    if not np.all(np.isfinite(P)):
        return "proba_not_finite", f"predict_proba contains non-finite values {P.tolist()}"
    # rows of a wrapped scikit-learn estimator are passed through as they are: GaussianNB on replicated points normalises only to ~5e-7
    if np.any(P < 0) or not np.allclose(P.sum(axis=1), 1.0, atol=1e-6 if "Sklearn" in name else 1e-9):
        return "proba_not_simplex", f"rows {P.tolist()} (sums {P.sum(axis=1).tolist()})"
    if hasattr(clf, "predict_freq"):
        try:
            F = np.asarray(clf.predict_freq(Xq), dtype=float)
            if np.any(F < 0):
                return "freq_negative", f"predict_freq {F.tolist()}"
        except Exception:
            pass
    expected = 1.0 / K
    if "class_prior=vector" in name:
        # a user-supplied NON-uniform prior is label information of its own: without labels the classifier predicts the normalised
        # prior (the statement's uniform clause is about symmetric priors, where both coincide)
        pv = np.asarray(clf.class_prior, dtype=float)
        expected = pv / pv.sum()
    if scen == "no_labels" and "Ensemble" not in name and not np.allclose(P, expected, atol=1e-12):
        return "not_uniform_without_labels", f"declared classes, no labels, predict_proba = {P[0].tolist()}"
    # decisions: members of classes_ minimising the expected cost under the configured cost matrix
    C = (1 - np.eye(K)) if cost is None else np.asarray(cost, dtype=float)
    pos = {c: i for i, c in enumerate(classes)}
    Cs = np.array([[C[pos[a], pos[b]] for b in cls_] for a in cls_])
    for i, (p, y) in enumerate(zip(P, pred.tolist())):
        if y not in cls_:
            return "prediction_not_a_class", f"predict returned {y!r}, classes_ = {cls_}"
        if "Ensemble" in name or "AnnotatorLogistic" in name:
            continue
        ec = p @ Cs
        if ec[cls_.index(y)] > ec.min() + 1e-9:
            return "prediction_not_cost_optimal", f"predict = {y!r} with expected costs {ec.tolist()} (classes_ {cls_}, proba {p.tolist()})"
    return None


def replay(ctx, path):
    print(json.dumps(json.load(open(path))["case"], indent=1, default=str)[:2500])
    run(ctx)
