"""C15 -- regressor predictions are coherent with their predictive distribution.

Coq: Props/C15.v (exact arithmetic).  Tie: the binary64 instance of the conjugate
update (_combine_params) is compared bit-exactly with the implementation on scalar
inputs; the statement's oracle runs on every probabilistic regressor: predict equals
mean / std / entropy of predict_target_distribution, standard deviations finite and
non-negative with a proper prior or >= 2 labels, sample_y shape and reproducibility
(every seed incl. 0), documented fallbacks of the sklearn wrappers when the wrapped
estimator cannot be fitted (0 / 1 labeled sample)."""
import json
import warnings

import numpy as np

from ..core import err_class, flit

IMPORTS = "From Coq Require Import PrimFloat.\nFrom V Require Import Base.Num Model.Nix Harness.Run Harness.StreamCheck Harness.NixCheck."
NAN = float("nan")


def tup(t):
    return "(" + ", ".join(flit(float(x)) for x in t) + ")"


def refusing(min_samples, partial=False):
    from sklearn.base import BaseEstimator, RegressorMixin
    from sklearn.exceptions import NotFittedError

    class Needs(RegressorMixin, BaseEstimator):
        def __init__(self, k=2):
            self.k = k

        def fit(self, X, y, sample_weight=None):
            if len(y) < self.k:
                raise ValueError(f"needs at least {self.k} samples")
            self.m_, self.s_ = float(np.mean(y)), float(np.std(y)) + 0.5
            return self

        def predict(self, X, return_std=False):
            if not hasattr(self, "m_"):
                raise NotFittedError("not fitted")
            if return_std:
                return np.full(len(X), self.m_), np.full(len(X), self.s_)
            return np.full(len(X), self.m_)

    class NeedsPartial(Needs):
        def partial_fit(self, X, y, sample_weight=None):
            return self.fit(X, y)
    return NeedsPartial(k=min_samples) if partial else Needs(k=min_samples)


def run(ctx):
    from sklearn.gaussian_process import GaussianProcessRegressor
    from sklearn.linear_model import BayesianRidge, LinearRegression
    from skactiveml.regressor import NadarayaWatsonRegressor, NICKernelRegressor, SklearnNormalRegressor, SklearnRegressor
    from skactiveml.regressor._nic_kernel_regressor import _combine_params
    warnings.simplefilter("ignore")
    ctx.extra["rule"] = ("_combine_params: seeded scalar parameter tuples (incl. zeros and large values) compared bit-exactly; regressors: NICKernelRegressor "
                         "(proper / improper priors), NadarayaWatsonRegressor, SklearnRegressor and SklearnNormalRegressor around LinearRegression, "
                         "BayesianRidge, GaussianProcessRegressor and an estimator that needs k samples; training sets with 0, 1, 2 and more labels; "
                         "non-trivial = at least one labeled sample and a finite predictive std; distinct = (regressor, data, seed)")
    ctx.trusted += ["scipy.stats.t / norm and the kernel sums are external (oracles)", "PrimFloat primitives for the bit-exact evaluation of the conjugate update",
                    "numpy evaluates array ** 2 as the exact product x*x (the model's fmul d d); update parameters are arrays in every call the library makes"]
    ctx.coq_props()
    rng = ctx.rng("c15")
    terms = []
    for _ in range(600 if ctx.is_quick else 6000):
        p1 = (float(rng.choice([0.0, 0.1, 1.0, rng.random() * 5])), float(rng.choice([0.0, 2.5, 3.0, rng.random() * 5])), float(rng.normal()), float(rng.random() * 3))
        p2 = (float(rng.random() * 10), float(rng.random() * 10), float(rng.normal() * 3), float(rng.random() * 2))
        if p1[0] + p2[0] == 0 or p1[1] + p2[1] == 0:
            continue
        # as in predict_target_distribution: the prior is a tuple of Python floats, the update parameters are numpy
        # arrays (one entry per query sample); on arrays `** 2` is numpy's exact square x*x, whereas on Python floats
        # it would be C pow(x, 2.0), which is not always correctly rounded (164 of 200000 draws differ by one ulp)
        out = tuple(float(np.asarray(v).ravel()[0]) for v in _combine_params(p1, tuple(np.array([v]) for v in p2)))
        terms.append(f"({tup(p1)}, {tup(p2)}, {tup(out)})")
        ctx.count("_combine_params")
    bad, err = ctx.coq_eval_cases("nix", IMPORTS, "check_nix", terms, chunk=1500)
    if err:
        ctx.violation("_combine_params", "model_eval_failed", err, {}, found_input=False, what="Coq evaluation of check_nix failed")
    for i in bad[:5]:
        ctx.violation("_combine_params", "model_mismatch", "binary64 instance of Model/Nix.v disagrees with _combine_params", {"case": terms[i]},
                      found_input=False, what="correspondence Model/Nix.v <-> _combine_params no longer holds")
    # ---- regressors ----
    def regs(seed, centre=0.0):
        return [
            ("NICKernelRegressor[mu_0=centre,weak prior]", lambda: NICKernelRegressor(mu_0=centre, kappa_0=1e-3, nu_0=2.5, sigma_sq_0=1.0, random_state=seed), "proper"),
            ("NICKernelRegressor", lambda: NICKernelRegressor(metric_dict={"gamma": 0.5}, random_state=seed), "proper"),
            ("NICKernelRegressor[improper]", lambda: NICKernelRegressor(kappa_0=0, nu_0=0, sigma_sq_0=0, random_state=seed), "improper"),
            ("NadarayaWatsonRegressor", lambda: NadarayaWatsonRegressor(random_state=seed), "nw"),
            ("SklearnNormalRegressor[BayesianRidge]", lambda: SklearnNormalRegressor(BayesianRidge(), random_state=seed), "wrap"),
            ("SklearnNormalRegressor[GPR]", lambda: SklearnNormalRegressor(GaussianProcessRegressor(random_state=seed), random_state=seed), "wrap"),
            ("SklearnNormalRegressor[needs2]", lambda: SklearnNormalRegressor(refusing(2), random_state=seed), "wrap"),
            ("SklearnNormalRegressor[needs5]", lambda: SklearnNormalRegressor(refusing(5), random_state=seed), "wrap"),
            ("SklearnRegressor[LinearRegression]", lambda: SklearnRegressor(LinearRegression(), random_state=seed), "plain"),
            ("SklearnRegressor[needs2]", lambda: SklearnRegressor(refusing(2), random_state=seed), "plain"),
        ]
    for h in range(60 if ctx.is_quick else 600):
        n = int(rng.integers(3, 9))
        X = rng.normal(size=(n, 2))
        y_true = np.round(rng.normal(size=n) * 2, 1)
        scale = ["unit", "unit", "timestamps", "equal_large", "tiny"][(h // 4) % 5]
        if scale == "timestamps":          # large offset, small spread (cancellation in one-pass variance formulas)
            y_true = 1.7e9 + np.round(rng.normal(size=n) * 3)
        elif scale == "equal_large":
            y_true = np.full(n, 123456789.0)
        elif scale == "tiny":
            y_true = np.round(rng.normal(size=n), 2) * 1e-9
        nlab = [0, 1, 2, n][h % 4]
        y = np.full(n, np.nan)
        idx = rng.choice(n, size=nlab, replace=False)
        y[idx] = y_true[idx]
        Xq = rng.normal(size=(4, 2))
        xq_dtype = ["float64", "float64", "int64", "float32"][(h // 2) % 4]
        if xq_dtype != "float64":            # integer / single-precision query matrices: same values, other dtype
            Xq = np.round(Xq * 3).astype(xq_dtype)
        seed = int(rng.integers(0, 50))
        centre = float(np.mean(y[idx])) if nlab else 0.0
        for name, mk, kind in regs(seed, centre):
            if "GPR" in name and scale != "unit":
                continue      # scikit-learn's GaussianProcessRegressor itself returns NaN for targets with a huge offset: third-party numerics, not the wrapper
            # the missing-label sentinel is varied as well (NaN / None in an object array / a reserved number): every clause of the
            # statement is about "labeled samples", whatever marks the others
            ml_mode = ["nan", "nan", "none", "number"][(h // 3) % 4]
            rc = {"target_scale": scale, "query_dtype": xq_dtype, "regressor": name, "X": X.tolist(), "y": [None if np.isnan(v) else v for v in y], "Xq": Xq.tolist(), "seed": seed,
                  "missing_label": ml_mode}
            try:
                y_fit, ml_val = y, np.nan
                if ml_mode == "none":
                    y_fit, ml_val = np.array([None if np.isnan(v) else float(v) for v in y], dtype=object), None
                elif ml_mode == "number":
                    y_fit, ml_val = np.where(np.isnan(y), -999.0, y), -999.0

                def mkml(mk=mk, ml_val=ml_val):
                    return mk().set_params(missing_label=ml_val)
                m = mkml().fit(X, y_fit)
                mu = np.asarray(m.predict(Xq), dtype=float)
            except Exception as e:
                if kind in ("nw", "improper") and nlab == 0:
                    continue      # documented: needs at least one label / a proper prior
                ctx.violation(name, "exception:" + err_class(e), repr(e)[:300], rc,
                              what=f"{name}: fit/predict raised {err_class(e)} with {nlab} labeled samples instead of falling back")
                continue
            ctx.count(name)
            if nlab >= 1:
                ctx.nontriv((name, X.tobytes(), y.tobytes(), seed))
            if xq_dtype != "float64":
                try:
                    mu64 = np.asarray(m.predict(Xq.astype(float)), dtype=float)
                    if not np.allclose(mu, mu64, rtol=1e-5 if xq_dtype == "float32" else 1e-12, atol=1e-6 if xq_dtype == "float32" else 1e-12, equal_nan=True):
                        ctx.violation(name, "query_dtype_matters", f"predict on the {xq_dtype} query matrix = {mu.tolist()}, on the same values as float64 = {mu64.tolist()} ({nlab} labels)", rc,
                                      what=f"{name}: predictions depend on the dtype of the query matrix ({xq_dtype} vs float64, {nlab} labeled samples)")
                        continue
                except Exception:
                    pass
            if mu.shape != (len(Xq),):
                ctx.violation(name, "predict_shape", f"predict shape {mu.shape}", rc)
                continue
            if kind in ("wrap", "plain"):
                exp = 0.0 if nlab == 0 else float(np.mean(y[idx]))
                never_fits = ("needs5" in name and nlab < 5) or ("needs2" in name and nlab < 2) or nlab == 0
                if never_fits and not np.allclose(mu, exp, atol=1e-12):
                    ctx.violation(name, "fallback_mean", f"predict = {mu.tolist()}, documented fallback {exp} ({nlab} labels)", rc,
                                  what=f"{name}: with {nlab} labeled samples and an estimator that cannot be fitted predict returns {mu[0]} instead of the documented default {exp}")
                    continue
            if not hasattr(m, "predict_target_distribution"):
                continue
            try:
                rv = m.predict_target_distribution(Xq)
                mu2, sd, ent = m.predict(Xq, return_std=True, return_entropy=True)
            except Exception as e:
                ctx.violation(name, "exception:" + err_class(e), repr(e)[:300], rc, what=f"{name}: predict_target_distribution raised {err_class(e)}")
                continue
            if not (np.array_equal(mu2, rv.mean(), equal_nan=True) and np.array_equal(sd, rv.std(), equal_nan=True) and np.array_equal(ent, rv.entropy(), equal_nan=True)
                    and np.array_equal(mu, mu2, equal_nan=True)):
                ctx.violation(name, "predict_vs_distribution", "predict differs from mean/std/entropy of predict_target_distribution", rc,
                              what=f"{name}: predict(return_std, return_entropy) is not the mean/std/entropy of the predictive distribution")
                continue
            # improper prior: the kernel-weighted sample size can stay below 2 (df <= 2 -> infinite variance) however many
            # labels exist, so finiteness is demanded for proper priors and for the wrappers only
            proper = kind in ("proper", "wrap") or (kind == "nw" and nlab >= 1 and False)
            if proper and (not np.all(np.isfinite(sd)) or np.any(sd < 0) or not np.all(np.isfinite(mu))):
                ctx.violation(name, "std_not_finite", f"mean {mu.tolist()}, std {np.asarray(sd).tolist()} with {nlab} labels", rc,
                              what=f"{name}: mean/std not finite / negative although a proper prior or >= 2 labels are available ({nlab} labels)")
                continue
            if np.all(np.isfinite(sd)) and np.all(np.asarray(sd) > 0):
                for s in (0, 1, 7):
                    a = m.sample_y(Xq, n_samples=5, random_state=s)
                    b = m.sample_y(Xq, n_samples=5, random_state=s)
                    c = mkml().fit(X, y_fit).sample_y(Xq, n_samples=5, random_state=s)
                    if np.asarray(a).shape != (len(Xq), 5):
                        ctx.violation(name, "sample_shape", f"sample_y shape {np.asarray(a).shape}", rc)
                        break
                    if not (np.array_equal(a, b) and np.array_equal(a, c)):
                        ctx.violation(name, "sample_not_reproducible", f"sample_y(random_state={s}) differs between two calls / twin objects", dict(rc, sample_seed=s),
                                      what=f"{name}: sample_y is not reproducible for random_state={s}")
                        break
                # the explicit seed must win whatever the regressor's own random_state is (None -> numpy's global generator, or an instance)
                for own in (None, "instance"):
                    m2 = mk()
                    if "random_state" not in m2.get_params(deep=False):
                        break
                    try:
                        m2.set_params(random_state=None if own is None else np.random.RandomState(5)).fit(X, y)
                    except Exception:
                        break
                    bad = None
                    for s in (0, 3):
                        np.random.seed(11)
                        a = m2.sample_y(Xq, n_samples=4, random_state=s)
                        np.random.seed(12)
                        b = m2.sample_y(Xq, n_samples=4, random_state=s)
                        if not np.array_equal(a, b):
                            bad = s
                            break
                    if bad is not None:
                        ctx.violation(name, "sample_not_reproducible", f"sample_y(random_state={bad}) differs between two calls when the regressor's own random_state is {own}",
                                      dict(rc, sample_seed=bad, own_random_state=str(own)),
                                      what=f"{name}: sample_y is not reproducible for random_state={bad} (regressor constructed with random_state={own})")
                        break
    partial_fit_fallback(ctx, rng)
    ctx.sample({"component": "_combine_params", "case": terms[0] if terms else None})
    ctx.extra["exhaustive"] = False


def partial_fit_fallback(ctx, rng):
    """partial_fit histories of the wrappers: after a partial_fit on a batch the wrapped estimator cannot be fitted on (no label at all,
    or fewer samples than it needs) predict falls back to the documented default (0 without labels, else the label mean of that batch;
    std 1 / the label std) - whatever an EARLIER, successful partial_fit left behind."""
    from sklearn.linear_model import SGDRegressor
    from skactiveml.regressor import SklearnNormalRegressor, SklearnRegressor
    mks = [("SklearnRegressor[SGD]", lambda s: SklearnRegressor(SGDRegressor(max_iter=50, tol=None, random_state=s), random_state=s), False),
           ("SklearnRegressor[needs3,partial_fit]", lambda s: SklearnRegressor(refusing(3, partial=True), random_state=s), False),
           ("SklearnNormalRegressor[needs3,partial_fit]", lambda s: SklearnNormalRegressor(refusing(3, partial=True), random_state=s), True)]
    for name, mk, normal in mks:
        for h in range(8 if ctx.is_quick else 60):
            seed = int(rng.integers(0, 100))
            X1, y1 = rng.normal(size=(6, 2)), np.round(rng.normal(size=6) * 2 + 3, 1)
            X2 = rng.normal(size=(4, 2))
            nlab2 = [0, 0, 1, 2][h % 4]
            y2 = np.full(4, np.nan)
            y2[:nlab2] = np.round(rng.normal(size=nlab2) * 2 - 4, 1)
            if "SGD" in name and nlab2 > 0:
                continue        # SGD can be fitted on a single labeled sample: no fallback to judge
            Xq = rng.normal(size=(3, 2))
            rc = {"regressor": name, "X1": X1.tolist(), "y1": y1.tolist(), "X2": X2.tolist(), "y2": [None if v != v else v for v in y2], "seed": seed}
            try:
                with warnings.catch_warnings():
                    warnings.simplefilter("ignore")
                    m = mk(seed)
                    m.partial_fit(X1, y1)
                    m.partial_fit(X2, y2)
                    mu = np.asarray(m.predict(Xq), dtype=float)
                    sd = np.asarray(m.predict(Xq, return_std=True)[1], dtype=float) if normal else None
            except Exception as e:
                ctx.violation(name, "exception:" + err_class(e), repr(e)[:300], rc, what=f"{name}: partial_fit / predict raised {err_class(e)} instead of falling back")
                continue
            ctx.count("partial_fit_fallback:" + name)
            ctx.nontriv(("pf", name, X1.tobytes(), y2.tobytes(), seed))
            exp = 0.0 if nlab2 == 0 else float(np.mean(y2[:nlab2]))
            if not np.allclose(mu, exp, atol=1e-12):
                ctx.violation(name, "fallback_mean", f"predict after partial_fit(batch with labels) then partial_fit(batch with {nlab2} labels, not fittable) = {mu.tolist()}, documented fallback {exp}", rc,
                              what=f"{name}: after a partial_fit the wrapped estimator could not be fitted on, predict returns {mu[0]} instead of the documented default {exp}")
            elif sd is not None and not (np.all(np.isfinite(sd)) and np.all(sd > 0)):
                ctx.violation(name, "std_not_finite", f"std {sd.tolist()} after the failed partial_fit", rc, what=f"{name}: std not finite / positive after a partial_fit that could not be fitted")


def replay(ctx, path):
    print(json.dumps(json.load(open(path))["case"], indent=1, default=str)[:2500])
    run(ctx)
