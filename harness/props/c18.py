"""C18 -- selection primitives (rand_argmax, rand_argmin, simple_batch).

Tie to /repo: functional correspondence.  The implementation is called on
generated arrays; the noise it draws is reproduced from the same seed and handed
to the Gallina model (Model/Sel.v), which is evaluated inside Coq on the same
inputs; results must be identical.  The direct oracle of the property statement
is run on every implementation output as well (failing-input search)."""
import itertools
import json
import warnings

import numpy as np

from ..core import (blit, err_class, fkey, listlit, natlist, natlit, noise_num, rank_keys, relayout, vlist, zlist)

IMPORTS = "From V Require Import Base.OptOrder Model.Sel Harness.Run Harness.SelCheck."
NAN, INF = float("nan"), float("inf")
ALPHA_ARG = [NAN, -INF, -1.0, -0.0, 0.0, 1.0, INF]
ALPHA_BATCH = [NAN, -1.0, -0.0, 0.0, 1.0, 2.5]


def _sel():
    from skactiveml.utils import _selection
    return _selection


def keys(a):
    a = np.asarray(a)
    if a.dtype.kind in "iub":          # integers are compared exactly (beyond 2**53 their double images collide)
        return [int(x) for x in a.ravel()]
    return [fkey(x) for x in np.asarray(a, dtype=float).ravel()]


def rkeys(a, rows=()):
    """Rank-compressed keys of a (and of further arrays sharing its value set)."""
    ka = keys(a)
    extra = [keys(r) for r in rows]
    allk = rank_keys(ka + [k for r in extra for k in r])
    out, pos = [allk[:len(ka)]], len(ka)
    for r in extra:
        out.append(allk[pos:pos + len(r)])
        pos += len(r)
    return out


def rnoise(nz):
    """Rank-compressed noise numerators (all > 0; only their order matters)."""
    return rank_keys([noise_num(x) for x in np.asarray(nz).ravel()])


def hexes(a):
    return [float(x).hex() for x in np.asarray(a, dtype=float).ravel()]


# ---------------------------------------------------------------- oracles ---
def oracle_arg(a, is_max, idx):
    """Statement of C18 for rand_argmax/rand_argmin (axis=None)."""
    a = np.asarray(a)
    if a.dtype.kind in "iub":
        v = int(a[tuple(idx)] if a.ndim > 1 else a[idx[0]])
        best = int(a.max() if is_max else a.min())
        return None if v == best else f"returned position {list(map(int, idx))} holds {v}, optimum is {best}"
    a = np.asarray(a, dtype=float)
    if np.all(np.isnan(a)):
        return None  # nothing claimed
    v = a[tuple(idx)] if a.ndim > 1 else a[idx[0]]
    best = np.nanmax(a) if is_max else np.nanmin(a)
    if np.isnan(v) or v != best:
        return f"returned position {list(map(int, idx))} holds {v}, optimum is {best}"
    return None


def oracle_batch(u, bs, picks, rows, method):
    u = np.asarray(u, dtype=float)
    flat = u.ravel()
    k = min(bs, int(np.sum(~np.isnan(flat))))
    picks = np.asarray(picks)
    pk = [tuple(np.atleast_1d(p).tolist()) for p in picks]
    if len(pk) != k:
        return f"{len(pk)} positions returned, expected {k}"
    if len(set(pk)) != len(pk):
        return "positions not distinct"
    rows = np.asarray(rows, dtype=float)
    if rows.shape != (k,) + u.shape:
        return f"utilities shape {rows.shape}, expected {(k,) + u.shape}"
    prev_val = None
    for s, p in enumerate(pk):
        row = rows[s]
        v = u[p]
        if np.isnan(v):
            return f"step {s} selected a NaN entry"
        exp = u.copy()
        for q in pk[:s]:
            exp[q] = np.nan
        if not np.array_equal(np.isnan(row), np.isnan(exp)) or not np.array_equal(row[~np.isnan(row)], exp[~np.isnan(exp)]):
            return f"row {s} is not the utilities with earlier picks masked"
        if method == "max":
            if v != np.nanmax(row):
                return f"step {s} is not a maximum of its row"
            if prev_val is not None and v > prev_val:
                return "utilities of the picks are not non-increasing"
            prev_val = v
        else:
            if v == 0:
                return f"step {s} selected an entry of weight {v}"
    return None


# ------------------------------------------------------------- generators ---
def gen_arrays(ctx, tier):
    """Yield (array, tag).  Exhaustive small scope + random larger ones."""
    maxlen = 4 if tier == "quick" else 5
    for n in range(1, maxlen + 1):
        for tup in itertools.product(ALPHA_ARG, repeat=n):
            yield np.array(tup, dtype=float), "exh"
    rng = ctx.rng("arg")
    nrand = 400 if tier == "quick" else 6000
    for _ in range(nrand):
        nd = int(rng.integers(1, 4))
        shape = tuple(int(rng.integers(1, 7 if nd > 1 else 200)) for _ in range(nd))
        nvals = int(rng.integers(1, 6))
        base = rng.normal(size=nvals)
        # near-ties: distinct doubles that differ by one ulp / a relative 1e-10 .. 1e-13
        near = np.concatenate([np.nextafter(base, np.inf), base * (1 + 1e-10), base * (1 - 1e-12), base + 1e-13])
        pool = np.concatenate([base, rng.choice(near, size=nvals), rng.choice(ALPHA_ARG, size=2)])
        a = rng.choice(pool, size=shape)
        a[rng.random(shape) < rng.choice([0.0, 0.2, 0.7])] = np.nan
        a = relayout(a, int(rng.integers(0, 4)))
        yield a, f"rand{nd}d"
    # integer / unsigned / narrow-float / boolean arrays (exact small values, heavy ties incl. zeros and the dtype's extremes)
    for _ in range(nrand // 2):
        nd = int(rng.integers(1, 3))
        shape = tuple(int(rng.integers(1, 7)) for _ in range(nd))
        dt = str(rng.choice(["int64", "int32", "int8", "uint8", "uint16", "uint64", "float32", "bool"]))
        if dt in ("int64", "uint64") and rng.random() < 0.4:
            # 64-bit integers beyond 2**53 that differ by 1 (time stamps in ns, ids): distinct values, equal as doubles
            a = (np.array(2 ** 60, dtype=dt) + rng.integers(0, 4, size=shape).astype(dt)).astype(dt)
            yield relayout(a, int(rng.integers(0, 4))), f"dtype:{dt}:huge"
            continue
        if dt == "bool":
            a = rng.random(shape) < 0.5
        elif dt.startswith("uint"):
            a = rng.choice([0, 0, 1, 2, 5, np.iinfo(dt).max if dt != "uint64" else 2 ** 40], size=shape).astype(dt)
        elif dt.startswith("int"):
            a = rng.choice([-3, -1, 0, 0, 1, 4, np.iinfo(dt).min if dt in ("int8", "int32") else -2 ** 40], size=shape).astype(dt)
        else:
            a = rng.choice([-1.5, 0.0, 0.25, 3.0, np.nan], size=shape).astype(dt)
        yield relayout(a, int(rng.integers(0, 4))), f"dtype:{dt}"


def same_layout_copy(u):
    """a private copy of u in the SAME memory layout (np.copy would silently make it C-contiguous): C order, Fortran order,
    transposed view of a C array, or strided view of a wider array"""
    u = np.asarray(u)
    if u.ndim < 2 or u.flags["C_CONTIGUOUS"]:
        return u.copy()
    if u.flags["F_CONTIGUOUS"]:
        return np.asfortranarray(u.copy())
    return relayout(u.copy(), 3)


def gen_batches(ctx, tier):
    maxlen = 3 if tier == "quick" else 4
    for n in range(1, maxlen + 1):
        for tup in itertools.product(ALPHA_BATCH, repeat=n):
            for bs in (1, 2, n + 1):
                yield np.array(tup, dtype=float), bs, "exh"
    rng = ctx.rng("batch")
    nrand = 250 if tier == "quick" else 4000
    for _ in range(nrand):
        nd = int(rng.integers(1, 4))
        shape = tuple(int(rng.integers(1, 5 if nd > 1 else 60)) for _ in range(nd))
        nvals = int(rng.integers(1, 5))
        base = rng.normal(size=nvals)
        near = np.concatenate([np.nextafter(base, np.inf), base * (1 + 1e-10), base * (1 - 1e-12)])
        pool = np.concatenate([base, rng.choice(near, size=nvals), [0.0, -0.0]])
        u = rng.choice(pool, size=shape)
        u[rng.random(shape) < rng.choice([0.0, 0.3, 0.8])] = np.nan
        u = relayout(u, int(rng.integers(0, 4)))
        if rng.random() < 0.05:
            u.ravel()[int(rng.integers(u.size))] = rng.choice([INF, -INF])
        bs = int(rng.choice([1, 2, 3, max(1, u.size // 2), u.size + 3]))
        yield u, bs, f"rand{nd}d"


def gen_props(ctx, tier):
    yield np.array([NAN]), 1          # corpus: C18-F1
    yield np.array([0.0, 2.0, NAN, 1.0]), 2
    rng = ctx.rng("prop")
    n = 300 if tier == "quick" else 4000
    for _ in range(n):
        size = int(rng.integers(1, 30))
        pool = np.concatenate([np.abs(rng.normal(size=3)), [0.0, 0.0]])
        u = rng.choice(pool, size=size)
        u[rng.random(size) < rng.choice([0.0, 0.3])] = np.nan
        if rng.random() < 0.1:
            u[int(rng.integers(size))] = -1.0
        bs = int(rng.choice([1, 2, 3, size, size + 2]))
        yield u, bs
    # heavy-tailed weights (a few dominant entries, many of relative size 1e-8 .. 1e-14) next to zero-weight and NaN entries, batches
    # that need more than the dominant entries; and large pools of equal weights with batches of hundreds
    for _ in range(n // 6):
        size = int(rng.integers(8, 40))
        u = np.concatenate([[1.0, 0.5], 10.0 ** -rng.integers(8, 15, size=size).astype(float)])
        u = np.concatenate([u, np.zeros(int(rng.integers(1, 6))), np.full(int(rng.integers(0, 4)), NAN)])
        rng.shuffle(u)
        npos = int(np.sum(u > 0))
        yield u, int(rng.choice([3, npos // 2 + 1, npos]))
    for big in ([3000] if tier == "quick" else [3000, 6000, 9000]):
        u = np.ones(big)
        u[rng.random(big) < 0.4] = np.nan
        u[rng.random(big) < 0.1] = 0.0
        yield u, int(np.sum(u > 0) * 0.8)


# ------------------------------------------------------------------ check ---
def run(ctx):
    sel = _sel()
    warnings.simplefilter("ignore")
    ctx.extra["rule"] = (
        "exhaustive arrays over {NaN,-inf,-1,-0.0,0.0,1,inf} up to length 4 (quick) / 5 (thorough) plus seeded "
        "random 1-3-d arrays with few distinct values; a case is non-trivial when the array has >=2 non-NaN "
        "entries (arg) or the batch has >=2 steps or a tie at the top (batch); distinct = distinct (array, seed, bs)")
    ctx.trusted += ["numpy RandomState.random / choice (noise and the choice oracle are captured, not modelled)",
                    "MT19937 seed->noise map is not modelled: tie reachability is proved over noise vectors and tested over seeds"]
    ctx.assume += ["noise draws are > 0 (a draw of exactly 0.0 has probability 2^-53; C18_zero_noise_counterexample)",
                   "numpy's choice(replace=False, p) returns distinct indices of positive probability"]
    ok = ctx.coq_props()

    # ---- rand_argmax / rand_argmin, axis=None ----
    arg_cases, arg_meta = [], []
    for a, tag in gen_arrays(ctx, ctx.tier):
        for is_max in (True, False):
            seed = int(ctx.seed * 1000 + (len(arg_cases) % 7))
            fn = sel.rand_argmax if is_max else sel.rand_argmin
            try:
                idx = [int(i) for i in np.atleast_1d(fn(a, random_state=seed))]
            except Exception as e:  # the primitives never raise on float arrays
                ctx.violation("rand_argmax" if is_max else "rand_argmin", "exception", repr(e),
                              {"a": hexes(a), "shape": a.shape, "seed": seed, "is_max": is_max})
                continue
            noise = np.random.RandomState(seed).random(a.shape)
            if np.any(noise == 0.0):
                continue
            arg_cases.append(f"({blit(is_max)}, {vlist(rkeys(a)[0])}, {natlist(a.shape)}, "
                             f"{zlist(rnoise(noise))}, {natlist(idx)})")
            arg_meta.append((a, is_max, seed, idx))
            ctx.count("rand_argmax" if is_max else "rand_argmin")
            ctx.hist[f"arg:{tag}"] += 1
            if np.sum(~np.isnan(a)) >= 2:
                ctx.nontriv(("arg", hexes(a), a.shape, is_max, seed))
            msg = oracle_arg(a, is_max, idx)
            if msg:
                ctx.violation("rand_argmax" if is_max else "rand_argmin", "not_optimal", msg,
                              {"component": "arg", "a": hexes(a), "shape": list(a.shape), "seed": seed, "is_max": is_max},
                              what=msg)
    ctx.sample({"component": "rand_argmax", "a": hexes(arg_meta[-1][0]), "seed": arg_meta[-1][2], "returned": arg_meta[-1][3]})
    bad, err = ctx.coq_eval_cases("arg", IMPORTS, "check_arg", arg_cases, chunk=1500)
    report_mismatch(ctx, "rand_arg", bad, err, arg_meta,
                    lambda m: {"component": "arg", "a": hexes(m[0]), "shape": list(m[0].shape), "seed": m[2], "is_max": m[1], "impl": m[3]},
                    lambda m: oracle_arg(m[0], m[1], m[3]))

    # ---- axis variants on 2-D arrays ----
    ax_cases, ax_meta = [], []
    rng = ctx.rng("axis")
    for _ in range(150 if ctx.is_quick else 2000):
        shape = (int(rng.integers(1, 6)), int(rng.integers(1, 6)))
        a = relayout(rng.choice([NAN, -INF, -1.0, -0.0, 0.0, 1.0, INF, 0.5], size=shape), int(rng.integers(0, 4)))
        # all-NaN slices make numpy warn and return 0; keep them, the model returns 0 too
        axis = int(rng.integers(0, 2))
        is_max = bool(rng.integers(0, 2))
        seed = int(rng.integers(0, 1000))
        fn = sel.rand_argmax if is_max else sel.rand_argmin
        res = [int(i) for i in np.atleast_1d(fn(a, random_state=seed, axis=axis))]
        noise = np.random.RandomState(seed).random(a.shape)
        A, N = (a, noise) if axis == 1 else (a.T, noise.T)
        ax_cases.append(f"({blit(is_max)}, {listlit([vlist(r) for r in rkeys(A[0], A[1:])])}, "
                        f"{listlit([zlist(rnoise(r)) for r in N])}, {natlist(res)})")
        ax_meta.append((a, axis, is_max, seed, res))
        ctx.count("rand_arg_axis")
        ctx.nontriv(("axis", hexes(a), shape, axis, is_max, seed))
        for j, r in enumerate(A):
            if not np.all(np.isnan(r)):
                msg = oracle_arg(r, is_max, [res[j]])
                if msg:
                    ctx.violation("rand_arg_axis", "not_optimal", msg,
                                  {"component": "axis", "a": hexes(a), "shape": list(shape), "axis": axis, "seed": seed, "is_max": is_max}, what=msg)
    bad, err = ctx.coq_eval_cases("axis", IMPORTS, "check_axis", ax_cases, chunk=1500)
    report_mismatch(ctx, "rand_arg_axis", bad, err, ax_meta,
                    lambda m: {"component": "axis", "a": hexes(m[0]), "shape": list(m[0].shape), "axis": m[1], "is_max": m[2], "seed": m[3], "impl": m[4]},
                    lambda m: None)

    # ---- simple_batch(method="max") ----
    b_cases, b_meta = [], []
    for u, bs, tag in gen_batches(ctx, ctx.tier):
        use_rs = (len(b_cases) % 3 == 0)
        seed = int(len(b_cases) % 11)
        rs = np.random.RandomState(seed) if use_rs else seed
        has_inf = bool(np.any(np.isinf(u)))
        try:
            picks, rows = sel.simple_batch(same_layout_copy(u), random_state=rs, batch_size=bs, return_utilities=True)
            picks2 = sel.simple_batch(same_layout_copy(u), random_state=(np.random.RandomState(seed) if use_rs else seed), batch_size=bs)
        except Exception as e:
            if has_inf and isinstance(e, ValueError):
                ctx.count("simple_batch_rejects_inf")
                continue
            ctx.violation("simple_batch", "exception", repr(e),
                          {"component": "batch", "u": hexes(u), "shape": list(u.shape), "bs": bs, "seed": seed, "use_rs": use_rs})
            continue
        if has_inf:
            ctx.violation("simple_batch", "inf_accepted", "infinite utilities are documented as rejected (check_array allow-nan)",
                          {"component": "batch", "u": hexes(u), "shape": list(u.shape), "bs": bs}, found_input=False,
                          what="correspondence: simple_batch no longer rejects infinite utilities (model guard differs)")
            continue
        k = min(bs, int(np.sum(~np.isnan(u))))
        gen = np.random.RandomState(seed)
        noises = [(gen if use_rs else np.random.RandomState(seed)).random(u.shape) for _ in range(k)]
        if any(np.any(nz == 0.0) for nz in noises):
            continue
        pk = [list(map(int, np.atleast_1d(p))) for p in picks]
        if not np.array_equal(np.asarray(picks), np.asarray(picks2)):
            ctx.violation("simple_batch", "return_utilities_changes_selection", "indices differ with/without return_utilities",
                          {"component": "batch", "u": hexes(u), "shape": list(u.shape), "bs": bs, "seed": seed, "use_rs": use_rs})
        rk = rkeys(u, list(rows))
        b_cases.append(f"({vlist(rk[0])}, {natlist(u.shape)}, "
                       f"{listlit([zlist(rnoise(nz)) for nz in noises])}, {natlit(bs)}, "
                       f"{listlit([natlist(p) for p in pk])}, {listlit([vlist(r) for r in rk[1:]])})")
        b_meta.append((u, bs, seed, use_rs, pk, rows))
        ctx.count("simple_batch_max")
        ctx.hist[f"batch:{tag}"] += 1
        vals = u.ravel()[~np.isnan(u.ravel())]
        if k >= 2 or (len(vals) >= 2 and np.sum(vals == vals.max()) >= 2):
            ctx.nontriv(("batch", hexes(u), u.shape, bs, seed, use_rs))
        msg = oracle_batch(u, bs, picks, rows, "max")
        if msg:
            ctx.violation("simple_batch", "malformed_batch", msg,
                          {"component": "batch", "u": hexes(u), "shape": list(u.shape), "bs": bs, "seed": seed, "use_rs": use_rs}, what=msg)
    if b_meta:
        m = b_meta[-1]
        ctx.sample({"component": "simple_batch", "u": hexes(m[0]), "batch_size": m[1], "seed": m[2], "picks": m[4]})
    bad, err = ctx.coq_eval_cases("batch", IMPORTS, "check_batch", b_cases, chunk=400)
    report_mismatch(ctx, "simple_batch", bad, err, b_meta,
                    lambda m: {"component": "batch", "u": hexes(m[0]), "shape": list(m[0].shape), "bs": m[1], "seed": m[2], "use_rs": m[3], "impl_picks": m[4]},
                    lambda m: oracle_batch(m[0], m[1], np.asarray(m[4]).reshape(len(m[4]), -1) if m[0].ndim > 1 else np.asarray(m[4]).ravel(), m[5], "max"))

    # ---- simple_batch(method="proportional") ----
    p_cases, p_meta = [], []
    for u, bs in gen_props(ctx, ctx.tier):
        seed = int(len(p_cases) % 13)
        vals = u[~np.isnan(u)]
        k = min(bs, len(vals))
        guard = bool(np.all(vals >= 0)) and int(np.sum(vals > 0)) >= k and (k == 0 or np.sum(vals) > 0)
        try:
            picks, rows = sel.simple_batch(same_layout_copy(u), random_state=seed, batch_size=bs, return_utilities=True, method="proportional")
        except Exception as e:
            if not guard and isinstance(e, ValueError):
                ctx.count("simple_batch_prop_rejected")
                continue
            kind = "exception_all_nan" if len(vals) == 0 else "exception"
            ctx.violation("simple_batch_proportional", kind, repr(e),
                          {"component": "prop", "u": hexes(u), "bs": bs, "seed": seed},
                          what=f"simple_batch(method='proportional') raised {err_class(e)} inside its documented domain")
            continue
        msg = oracle_batch(u, bs, picks, rows, "proportional")
        if msg:
            ctx.violation("simple_batch_proportional", "malformed_batch", msg,
                          {"component": "prop", "u": hexes(u) if u.size <= 400 else {"n": int(u.size), "nan": int(np.isnan(u).sum()), "zero": int(np.sum(u == 0)), "equal_positive_weight": 1.0},
                           "bs": bs, "seed": seed}, what=msg)
        if not guard:
            continue  # numpy accepted something outside the modelled guard (e.g. k=0); oracle above still applied
        if u.size > 100:
            ctx.count("simple_batch_proportional_large(direct oracle only)")
            continue  # large pools: the statement's oracle only (a k x n row matrix as a Coq literal would take minutes)
        rk = rkeys(u, list(rows))
        p_cases.append(f"({vlist(rk[0])}, {natlit(k)}, {natlist([int(p) for p in picks])}, {listlit([vlist(r) for r in rk[1:]])})")
        p_meta.append((u, bs, seed, [int(p) for p in picks], rows))
        ctx.count("simple_batch_proportional")
        if k >= 2:
            ctx.nontriv(("prop", hexes(u), bs, seed))
    bad, err = ctx.coq_eval_cases("prop", IMPORTS, "check_prop", p_cases, chunk=600)
    report_mismatch(ctx, "simple_batch_proportional", bad, err, p_meta,
                    lambda m: {"component": "prop", "u": hexes(m[0]), "bs": m[1], "seed": m[2], "impl_picks": m[3]},
                    lambda m: oracle_batch(m[0], m[1], m[3], m[4], "proportional"))

    # ---- reproducibility and tie reachability over seeds (test, supports the theorem) ----
    rng = ctx.rng("ties")
    unreached = 0
    for _ in range(40 if ctx.is_quick else 400):
        n = int(rng.integers(2, 7))
        a = rng.choice([0.0, 1.0, NAN], size=n)
        if np.all(np.isnan(a)):
            continue
        ties = set(np.flatnonzero(a == np.nanmax(a)).tolist())
        seen = set()
        for s in range(200):
            r1 = int(sel.rand_argmax(a, random_state=s)[0])
            if s < 3 and r1 != int(sel.rand_argmax(a, random_state=s)[0]):
                ctx.violation("rand_argmax", "not_reproducible", "same seed, different result", {"component": "ties", "a": hexes(a), "seed": s})
            seen.add(r1)
            if seen == ties:
                break
        ctx.count("tie_reachability")
        if seen != ties:
            unreached += 1
            ctx.violation("rand_argmax", "tie_unreachable", f"ties {sorted(ties)} reached {sorted(seen)} in 200 seeds",
                          {"component": "ties", "a": hexes(a)})
    # the same over an axis of 2-D arrays (every slice separately), half of them with an all-NaN slice next to tied slices
    for h in range(40 if ctx.is_quick else 400):
        shape = (int(rng.integers(2, 5)), int(rng.integers(2, 5)))
        a = rng.choice([0.0, 1.0, NAN], size=shape, p=[0.45, 0.35, 0.2])
        axis = h % 2
        is_max = bool((h // 2) % 2)
        if h % 4 < 2:
            if axis == 1:
                a[int(rng.integers(shape[0]))] = NAN
            else:
                a[:, int(rng.integers(shape[1]))] = NAN
        fn = sel.rand_argmax if is_max else sel.rand_argmin
        A = a if axis == 1 else a.T
        want = []
        for r in A:
            if np.all(np.isnan(r)):
                want.append(None)
            else:
                best = np.nanmax(r) if is_max else np.nanmin(r)
                want.append(set(np.flatnonzero(r == best).tolist()))
        seen = [set() for _ in A]
        with warnings.catch_warnings():
            warnings.simplefilter("ignore")
            for sd in range(300):
                res = np.atleast_1d(fn(a, random_state=sd, axis=axis))
                for j, v in enumerate(res):
                    seen[j].add(int(v))
                if all(w is None or sn >= w for w, sn in zip(want, seen)):
                    break
        ctx.count("tie_reachability_axis")
        for j, (w, sn) in enumerate(zip(want, seen)):
            if w is not None and not (w <= sn):
                unreached += 1
                ctx.violation("rand_arg_axis", "tie_unreachable", f"{'rand_argmax' if is_max else 'rand_argmin'}(a, axis={axis}), a={a.tolist()}: slice {j} has tied optima {sorted(w)}, reached {sorted(sn)} in 300 seeds",
                              {"component": "ties_axis", "a": hexes(a), "shape": list(shape), "axis": axis, "is_max": is_max},
                              what="a tied optimum of a slice is never returned, whatever the seed")
                break
    ctx.extra["tie_patterns_with_unreached_optimum"] = unreached
    ctx.extra["exhaustive"] = False
    ctx.extra["exhaustive_subspace"] = "arrays over a 7-letter alphabet up to length %d x {max,min}" % (4 if ctx.is_quick else 5)


def report_mismatch(ctx, component, bad, err, meta, mk_replay, oracle):
    if err:
        ctx.violation(component, "model_eval_failed", err, {"component": component}, found_input=False,
                      what=f"correspondence {component}: the Coq evaluation of the model failed")
    for i in bad[:5]:
        m = meta[i]
        msg = oracle(m)
        if msg:
            ctx.violation(component, "property_fails", msg, mk_replay(m), what=msg)
        else:
            ctx.violation(component, "model_mismatch", "implementation and Gallina model disagree on this input",
                          mk_replay(m), found_input=False,
                          what=f"correspondence Model/Sel.v <-> skactiveml.utils._selection ({component}) no longer holds")


def replay(ctx, path):
    rec = json.load(open(path))
    c = rec["case"]
    sel = _sel()
    comp = c.get("component")
    def arr(h, shape=None):
        a = np.array([float.fromhex(x) for x in h])
        return a.reshape(shape) if shape else a
    if comp == "arg":
        a = arr(c["a"], c["shape"])
        fn = sel.rand_argmax if c["is_max"] else sel.rand_argmin
        idx = [int(i) for i in np.atleast_1d(fn(a, random_state=c["seed"]))]
        msg = oracle_arg(a, c["is_max"], idx)
        print("replay:", idx, msg or "property holds on this input")
        if msg:
            ctx.violation("rand_arg", "not_optimal", msg, c, what=msg)
    elif comp in ("batch", "prop"):
        u = arr(c["u"], c.get("shape"))
        method = "max" if comp == "batch" else "proportional"
        rs = np.random.RandomState(c["seed"]) if c.get("use_rs") else c["seed"]
        picks, rows = sel.simple_batch(u.copy(), random_state=rs, batch_size=c["bs"], return_utilities=True, method=method)
        msg = oracle_batch(u, c["bs"], picks, rows, method)
        print("replay:", np.asarray(picks).tolist(), msg or "property holds on this input")
        if msg:
            ctx.violation("simple_batch", "malformed_batch", msg, c, what=msg)
    else:
        print("replay: component not replayable directly; re-run ./check C18")
    ctx.coq_props()
