"""C05 -- pool query has no side effects on caller data, models or settings.

Coq: Props/C05.v (frame soundness).  (a) constructor parameters: harness/translate/frame.py
regenerates the effect table of every pool strategy class from /repo on every run; the table
theorem (table_ok = true, all methods, all branches) is re-checked by coqc.  (b) caller-owned
models and (c) caller arrays have no useful static handle and are decided dynamically: every
registry configuration (plus multi-annotator strategies and parameter variants) is queried 1-3
times with recording snapshots of get_params(deep=True), the model arguments (recursively, incl.
fitted attributes of list ensembles), the input arrays (bytes), pickling and clone behaviour.
An observed parameter write the table says is impossible = unsound translator = correspondence failure."""
import copy
import inspect
import os
import json
import pickle
import warnings

import numpy as np

from .. import frame as FR
from .. import pool as PL
from .. import poolreg as R
from ..core import err_class
from ..snap import deep_snap, diff_keys


def variants():
    """extra (name, factory, task, kw) configurations exercising non-default parameter values."""
    import skactiveml.pool as P
    out = []
    out.append(("ProbCover[deltas]", lambda c, s: P.ProbCover(deltas=np.array([0.9, 0.2, 0.5]), random_state=s), "clf", lambda c, s: {}))
    out.append(("ProbabilisticAL[rbf]", lambda c, s: P.ProbabilisticAL(metric="rbf", random_state=s), "clf", lambda c, s: {"clf": R._clf(c, s)}))
    out.append(("ProbabilisticAL[rbf,dict]", lambda c, s: P.ProbabilisticAL(metric="rbf", metric_dict={"gamma": "mean"}, random_state=s), "clf", lambda c, s: {"clf": R._clf(c, s)}))
    out.append(("Clue[dict]", lambda c, s: P.Clue(cluster_algo_dict={"n_init": 1}, random_state=s), "clf", lambda c, s: {"clf": R._clf(c, s)}))
    out.append(("TypiClust[dict]", lambda c, s: P.TypiClust(cluster_algo_dict={"n_init": 1}, random_state=s), "clf", lambda c, s: {}))
    out.append(("UncertaintySampling[cost]", lambda c, s: P.UncertaintySampling(method="expected_average_precision" if False else "least_confident", cost_matrix=1 - np.eye(len(c)), random_state=s),
                "clf", lambda c, s: {"clf": R._clf(c, s)}))
    out.append(("ContrastiveAL[dict]", lambda c, s: P.ContrastiveAL(nearest_neighbors_dict={"n_neighbors": 2}, random_state=s), "clf", lambda c, s: {"clf": R._clf(c, s)}))
    out.append(("ExpectedModelOutputChange[dict]", lambda c, s: P.ExpectedModelOutputChange(integration_dict={"method": "assume_linear"}, random_state=s), "reg", lambda c, s: {"reg": R._nic(s)}))
    out.append(("KLDivergenceMaximization[dict]", lambda c, s: P.KLDivergenceMaximization(integration_dict_target_val={"method": "assume_linear"}, random_state=s), "reg", lambda c, s: {"reg": R._nic(s)}))
    return out


def run(ctx):
    warnings.simplefilter("ignore")
    ctx.extra["rule"] = ("static: every method of every estimator class under skactiveml/pool (effect table regenerated from source); dynamic: 36 registry "
                         "configurations + 9 parameter variants + multi-annotator strategies x seeded data x {with, without sample_weight} x 1-3 "
                         "consecutive queries; non-trivial = query with fit_* enabled and a model argument; distinct = (strategy, data, kwargs)")
    ctx.trusted += ["harness/translate/frame.py: its effect set for a statement covers what the statement can do to self's attributes and their aliases "
                    "(fail-closed on unknown constructs; cross-checked by the dynamic get_params comparison)",
                    "deep structural snapshots (harness/snap.py) as the notion of 'unchanged'"]
    ctx.assume += ["(c) caller arrays are validated dynamically only (numpy views / helper functions defeat a static handle); (b) caller-owned models: static "
                   "may-analysis of mutating uses (fit / partial_fit / set_params / attribute assignment) + dynamic snapshots"]
    ctx.trusted += ["harness/translate/modelfit.py (which calls mutate: fit, partial_fit, set_params, set_base_clf, attribute assignment, setattr; freshness = clone / deepcopy / constructor)"]
    ctx.coq_props()
    table, offenders = FR.check_table(ctx, lambda e: e["file"].startswith("skactiveml/pool") or e["class"] in ("PoolQueryStrategy", "SingleAnnotatorPoolQueryStrategy", "MultiAnnotatorPoolQueryStrategy", "QueryStrategy"), "C05")
    static_flagged = set()
    if offenders:
        for cls, m, p, f in offenders[:10]:
            static_flagged.add((cls, p))
            ctx.violation(cls, "param_write_static", f"{f}: {cls}.{m} may write or mutate constructor parameter '{p}'",
                          {"class": cls, "method": m, "param": p, "file": f}, found_input=False,
                          what=f"obligation C05_no_param_writes no longer checks: {cls}.{m} -> parameter {p}")
    # ---- static (b): no mutating use of a model object that may still be the caller's ----
    from ..translate import modelfit as TM
    from ..core import blit, natlit
    mrows, nfun = TM.rows()
    with open(os.path.join(ctx.build, "C05_models.v"), "w") as f:
        body = [f"({natlit(0)}, {blit(ok)})  (* {fl}:{line} {fn}: {what} *)".replace("(*", "(*").replace("**", "* *") for fl, fn, line, what, ok in mrows]
        f.write("From Coq Require Import List Bool.\nFrom V Require Import Model.RngProv.\nImport ListNotations.\n"
                "Definition model_mutation_sites : list site := [\n  " + ";\n  ".join(body) + "\n].\n"
                "Theorem C05_caller_models_not_mutated : sites_ok model_mutation_sites = true.\nProof. vm_compute. reflexivity. Qed.\n"
                "Print Assumptions C05_caller_models_not_mutated.\n")
    rc, so, se = ctx.coqc(os.path.join(ctx.build, "C05_models.v"))
    okm = rc == 0 and "Closed under the global context" in so
    ctx.obligations.append({"name": f"C05_caller_models_not_mutated ({nfun} functions of skactiveml/pool scanned, {len(mrows)} reviewed sites; regenerated from /repo)",
                            "discharged": okm, "assumptions": "Closed under the global context" if okm else (se or so)[-300:]})
    badm = [r for r in mrows if not r[4]]
    for fl, fn, line, what, ok in badm[:10]:
        ctx.violation(fn.split(".")[0], "caller_model_mutated_static", f"{fl}:{line} in {fn}: {what} on an object that may be the caller's", {"file": fl, "function": fn, "line": line, "what": what},
                      found_input=False, what=f"obligation C05_caller_models_not_mutated no longer checks: {fl}:{line} ({fn}) {what}")
    if not okm and not badm:
        ctx.broken("model_mutation_table", "the regenerated model-mutation table theorem does not check", (se or so)[-1500:])
    # ---- dynamic ----
    entries = [(E.name, E.make, E.task, E.kw, E) for E in R.registry()]
    for name, mk, task, kw in variants():
        entries.append((name, mk, task, kw, None))
    rng = ctx.rng("c05")
    reps = 4 if ctx.is_quick else 12
    for name, mk, task, kw, E in entries:
        for h in range(reps):
            binary = bool(E and E.binary)
            X, y, y_true, classes, labeling = R.gen_data(rng, task, n=int(rng.integers(7, 11)), binary=binary, cold="half")
            seed = int(rng.integers(0, 1000))
            # random_state as an integer, or as a caller-owned RandomState INSTANCE (a constructor parameter like any other: a query
            # must not advance it)
            qs = mk(classes, np.random.RandomState(seed) if h % 4 == 1 else seed)
            kwargs = kw(classes, seed)
            sig = inspect.signature(qs.query).parameters
            if "sample_weight" in sig and h % 2 == 1:
                kwargs["sample_weight"] = rng.integers(1, 5, size=len(y)).astype(float)
            if "utility_weight" in sig and h % 2 == 1 and not (E and E.wrapper):
                kwargs["utility_weight"] = np.ones(int(np.sum(np.isnan(y))))
            # candidates: not given / index array / 2-D float array of feature rows (the caller's own array object)
            cmode = ["none", "idx", "rows", "none"][h % 4]
            unl_ = np.flatnonzero(np.isnan(y))
            if cmode == "idx" and len(unl_) and "utility_weight" not in kwargs:
                kwargs["candidates"] = unl_[: max(1, len(unl_) - 1)].copy()
            elif cmode == "rows" and len(unl_) and (E is None or E.feat) and "utility_weight" not in kwargs:
                kwargs["candidates"] = np.ascontiguousarray(X[unl_], dtype=float)
            # a model that works IN PLACE on whatever array it is handed (StandardScaler(copy=False)): any layer that passes the
            # caller's array on without a private copy lets it be rewritten
            if h % 4 >= 2:
                for key in ("clf", "reg"):
                    if key in kwargs and type(kwargs[key]).__name__ in ("ParzenWindowClassifier", "SklearnClassifier", "SklearnRegressor", "NICKernelRegressor") \
                            and name.split("{")[0] not in ("FourDs", "Quire", "CostEmbeddingAL", "ProbabilisticAL", "EpistemicUncertaintySampling", "EpistemicUncertaintySampling[precompute]",
                                                           "MonteCarloEER", "ValueOfInformationEER", "ExpectedModelOutputChange", "ExpectedModelVarianceReduction",
                                                           "KLDivergenceMaximization", "KLDivergenceMaximization[monte_carlo]", "RegressionTreeBasedAL[random]",
                                                           "RegressionTreeBasedAL[diversity]", "RegressionTreeBasedAL[representativity]"):
                        kwargs[key] = inplace_model(key, classes, seed)
            bs = 1 if (E and E.max_bs) else int(rng.integers(1, 3))
            arrays = {"X": X, "y": y}
            arrays.update({k: v for k, v in kwargs.items() if isinstance(v, np.ndarray)})
            models = {k: v for k, v in kwargs.items() if not isinstance(v, np.ndarray)}
            before_params = deep_snap(qs.get_params(deep=True))
            before_models = {k: deep_snap(v) for k, v in models.items()}
            before_arrays = {k: v.tobytes() for k, v in arrays.items()}
            rc = {"strategy": name, "seed": seed, "batch_size": bs, "kwargs": sorted(kwargs), "X": X.tolist(), "y": [None if np.isnan(v) else v for v in y]}
            nq = int(rng.integers(1, 4))
            try:
                outs = [qs.query(X=X, y=y, batch_size=bs, **kwargs) for _ in range(nq)]
            except Exception as e:
                ctx.hist["query_exception(not C05)"] += 1
                continue
            ctx.count(name)
            if models:
                ctx.nontriv((name, X.tobytes(), y.tobytes(), seed, tuple(sorted(kwargs))))
            d = diff_keys(before_params, deep_snap(qs.get_params(deep=True)))
            if d:
                kind = "param_changed"
                ctx.violation(name, kind, f"get_params() differs after query at {d[:4]}", rc,
                              what=f"{name}.query changed what get_params reports: {d[:4]}")
                pname = d[0].lstrip(".").split(".")[0]
                if offenders is not None and not any(c == type(qs).__name__ for c, _ in static_flagged):
                    ctx.violation(name, "translator_unsound", f"observed write to {d[:2]} that the frame table rules out", rc, found_input=False,
                                  what="correspondence: the dynamic run observed a parameter change the regenerated frame table says cannot happen")
                continue
            for k, v in models.items():
                dm = diff_keys(before_models[k], deep_snap(v))
                if dm:
                    ctx.violation(name, "model_argument_changed", f"argument '{k}' differs after query at {dm[:4]}", rc,
                                  what=f"{name}.query altered the caller's {k} object ({dm[:3]})")
                    break
            for k, v in arrays.items():
                if v.tobytes() != before_arrays[k]:
                    ctx.violation(name, "input_array_changed", f"array '{k}' was modified in place", rc, what=f"{name}.query modified the caller's array {k}")
                    break
            try:
                pickle.dumps(qs)
            except Exception as e:
                ctx.violation(name, "not_picklable", repr(e)[:200], rc, what=f"{name} can no longer be pickled after query ({err_class(e)})")
                continue
            # a clone behaves like the original
            try:
                from sklearn.base import clone
                a = qs.query(X=X, y=y, batch_size=bs, **kwargs)
                b = clone(qs).query(X=X, y=y, batch_size=bs, **kwargs)
                if not np.array_equal(np.asarray(a), np.asarray(b)) and name.split("{")[0] not in GLOBAL_RNG_DEPENDENT:
                    ctx.violation(name, "clone_differs", f"original selects {np.asarray(a).tolist()}, clone {np.asarray(b).tolist()}", rc,
                                  what=f"a clone of {name} taken after query behaves differently from the original")
            except Exception:
                pass
    multi_annotator(ctx, rng)
    ctx.sample({"strategy": entries[1][0], "checked": ["get_params(deep=True)", "model arguments", "input arrays", "pickle", "clone"]})
    ctx.extra["exhaustive"] = False


def inplace_model(kind, classes, seed):
    from sklearn.linear_model import LinearRegression, LogisticRegression
    from sklearn.pipeline import make_pipeline
    from sklearn.preprocessing import StandardScaler
    from skactiveml.classifier import SklearnClassifier
    from skactiveml.regressor import SklearnRegressor
    if kind == "clf":
        return SklearnClassifier(make_pipeline(StandardScaler(copy=False), LogisticRegression()), classes=list(classes), random_state=seed)
    return SklearnRegressor(make_pipeline(StandardScaler(copy=False), LinearRegression()), random_state=seed)


# strategies whose repeated calls legitimately differ only because of the recorded C06 findings (global generator)
GLOBAL_RNG_DEPENDENT = {"Clue", "DropQuery", "TypiClust", "ProbCover", "GreedySamplingTarget", "Clue[dict]", "TypiClust[dict]", "ProbCover[deltas]", "CostEmbeddingAL"}


def multi_annotator(ctx, rng):
    from skactiveml.classifier import ParzenWindowClassifier
    from skactiveml.classifier.multiannotator import AnnotatorEnsembleClassifier
    from skactiveml.pool import UncertaintySampling
    from skactiveml.pool.multiannotator import IntervalEstimationThreshold, SingleAnnotatorWrapper
    for h in range(4 if ctx.is_quick else 30):
        n, na = int(rng.integers(4, 8)), 2
        X = rng.normal(size=(n, 2))
        y = rng.integers(0, 2, size=(n, na)).astype(float)
        y[rng.random((n, na)) < 0.5] = np.nan
        seed = int(rng.integers(0, 100))
        clf = ParzenWindowClassifier(classes=[0, 1], random_state=seed)
        ens = AnnotatorEnsembleClassifier(estimators=[(f"c{i}", ParzenWindowClassifier(random_state=seed)) for i in range(na)], classes=[0, 1], random_state=seed)
        for name, qs, kw in (("SingleAnnotatorWrapper", SingleAnnotatorWrapper(UncertaintySampling(random_state=seed), random_state=seed), {"clf": clf}),
                             ("IntervalEstimationThreshold", IntervalEstimationThreshold(random_state=seed), {"clf": ens})):
            bp, bm, bx = deep_snap(qs.get_params(deep=True)), deep_snap(kw["clf"]), (X.tobytes(), y.tobytes())
            try:
                qs.query(X=X, y=y, batch_size=2, **kw)
            except Exception:
                continue
            ctx.count(name)
            rc = {"strategy": name, "seed": seed}
            if diff_keys(bp, deep_snap(qs.get_params(deep=True))):
                ctx.violation(name, "param_changed", "get_params() differs after query", rc, what=f"{name}.query changed its constructor parameters")
            if diff_keys(bm, deep_snap(kw["clf"])):
                ctx.violation(name, "model_argument_changed", "clf differs after query", rc, what=f"{name}.query altered the caller's classifier")
            if (X.tobytes(), y.tobytes()) != bx:
                ctx.violation(name, "input_array_changed", "X / y modified", rc)


def replay(ctx, path):
    print(json.dumps(json.load(open(path))["case"], indent=1, default=str)[:2500])
    run(ctx)
