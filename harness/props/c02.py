"""C02 -- returned utilities agree with the returned selection.

Coq: Props/C02.v.  Tie: trace validation with the full Gallina acceptor
(accepts_pool: shape, NaN exactly at non-candidates and earlier picks, a number
at the pick, arg-max / positive mass) on (indices, utilities) recorded from every
registry configuration; the statement's direct oracle runs on the same traces."""
import json

import numpy as np

from .. import pool as PL
from .c01 import collect


def run(ctx):
    ctx.extra["rule"] = ("same case space as C01 (36 configurations x data x candidate modes x batch sizes) with return_utilities=True; tie-heavy "
                         "integer-grid data; non-trivial = >= 2 utility rows; distinct = (strategy, data, candidates, bs, seed)")
    ctx.trusted += ["the numeric layer (utility values) is an oracle; -inf entries (DropQuery, SubSamplingWrapper) are ordinary values"]
    ctx.assume += ["selection mode per strategy: sampling (positive mass) for RandomSampling, Badge, Falcun, RegressionTreeBasedAL[random]; max for all others"]
    ctx.trusted += ["harness/translate/skeleton.py (ast -> Model/SkelDsl.v term per `return simple_batch` site; fail-closed: unrecognised shapes become non-canonical constructors)",
                    "harness/loops.py: scripted numeric layers (integer coordinates, 0/1 distance matrix, scripted cluster algorithms / discriminator, recorded _d_2 and "
                    "pre-filtered sets, the library's own _typicality as oracle); tie-breaking noise reproduced from a twin's random_state_ (numpy RandomState)"]
    ctx.coq_props()
    from ..skel import check_skeleton_table
    check_skeleton_table(ctx)
    from ..loops import loops_correspondence
    loops_correspondence(ctx)
    entries, cases, outs = collect(ctx, "c02")
    tcases, tmeta = [], []
    for case, out in zip(cases, outs):
        E = entries[case["eidx"]]
        if out["status"] != "ok":
            continue       # termination / exceptions are C01's subject
        ctx.count(E.name)
        if out["ut"].ndim == 2 and out["ut"].shape[0] >= 2:
            ctx.nontriv((E.name, case["seed"], case["cmode"], case["bs"], case["X"].tobytes(), case["y"].tobytes()))
        ctx.hist[f"{case['cmode']}:{E.mode}"] += 1
        res = PL.oracle_c02(case, out, E.mode) if np.asarray(out["idx"]).ndim == 1 else ("indices_shape", f"indices of shape {np.asarray(out['idx']).shape}")
        if res:
            tags = PL.case_tags(case)
            if out["ut"].ndim == 2 and np.isnan(out["ut"]).all(axis=1).any():
                tags.add("all_nan_row")
            ctx.violation(E.name, res[0], res[1], PL.case_replay(case, out), what=f"{E.name}: {res[1]}", tags=tags)
            continue
        if len(out["idx"]) != min(PL.eff_bs(case), len(PL.cand_list(case)[0])):
            continue       # wrong batch length: C01's subject; rows were consistent with the returned selection
        tcases.append(PL.encode_trace(case, out, E.mode))
        tmeta.append((case, out))
    bad, err = ctx.coq_eval_cases("trace", PL.IMPORTS, "check_pool", tcases, chunk=250)
    if err:
        ctx.violation("trace", "model_eval_failed", err, {}, found_input=False, what="Coq evaluation of check_pool failed")
    for i in bad[:5]:
        c, o = tmeta[i]
        ctx.violation(c["name"], "trace_rejected", "the Gallina acceptor rejects a trace the direct oracle accepts",
                      PL.case_replay(c, o), found_input=False,
                      what="correspondence accepts_pool <-> direct C02 oracle no longer holds")
    tie_patterns(ctx)
    skeleton_correspondence(ctx)
    canonical_replay(ctx, entries, cases, outs)
    if tmeta:
        c, o = tmeta[len(tmeta) // 3]
        r = PL.case_replay(c, o)
        r["utilities"] = [[None if np.isnan(v) else float(v) for v in row] for row in o["ut"]]
        ctx.sample(r)
    ctx.extra["exhaustive"] = False


def tie_patterns(ctx):
    """all tie patterns among the top scores for the canonical skeleton: a scripted classifier
    whose probabilities take few values (UncertaintySampling on a tiny pool, exhaustive)."""
    import itertools
    import warnings
    from sklearn.base import BaseEstimator
    from skactiveml.base import SkactivemlClassifier
    from skactiveml.pool import UncertaintySampling

    class Scripted(SkactivemlClassifier):
        def __init__(self, table=None, classes=None, missing_label=np.nan, random_state=None):
            super().__init__(classes=classes, missing_label=missing_label, random_state=random_state)
            self.table = table

        def fit(self, X, y, sample_weight=None):
            self._validate_data(X, y, sample_weight)
            return self

        def predict_proba(self, X):
            p = np.array([self.table[int(x[0])] for x in np.asarray(X)])
            return np.column_stack([p, 1 - p])

    vals = [0.5, 0.5, 0.7, 0.9]
    n = 4 if ctx.is_quick else 5
    X = np.arange(n, dtype=float).reshape(-1, 1)
    for combo in itertools.product(range(len(vals)), repeat=n):
        table = [vals[i] for i in combo]
        for lab in ([], [0]):
            y = np.full(n, np.nan)
            y[lab] = 0
            for bs in (2, n):
                qs = UncertaintySampling(random_state=1)
                with warnings.catch_warnings():
                    warnings.simplefilter("ignore")
                    idx, ut = qs.query(X, y, clf=Scripted(table=table, classes=[0, 1]), fit_clf=False, batch_size=bs, return_utilities=True)
                case = {"eidx": 2, "name": "UncertaintySampling[scripted]", "X": X, "y": y, "classes": [0, 1], "cmode": "none", "cand": None, "bs": bs, "seed": 1}
                out = {"status": "ok", "idx": np.asarray(idx), "ut": np.asarray(ut, dtype=float)}
                res = PL.oracle_c02(case, out, "max") or PL.oracle_c01(case, dict(out, idx2=out["idx"]))
                ctx.count("tie_patterns")
                if res:
                    ctx.violation("UncertaintySampling", res[0], res[1], {"table": table, "labeled": lab, "bs": bs}, what=res[1])
    ctx.extra["exhaustive_subspace"] = f"all {len(vals)}^{n} score tables over {{0.5,0.5,0.7,0.9}} for the skeleton (UncertaintySampling with a scripted classifier)"


def canonical_replay(ctx, entries, cases, outs):
    """Exact functional correspondence for EVERY registry strategy whose query() ends in the canonical tail (the classes
    of the regenerated query-tail table, `method="max"`, scores not drawn from the strategy's own generator): the first
    returned utility row IS the utilities vector handed to simple_batch; the tie-breaking noise is reproduced from a twin's
    random_state_; the Gallina simple_batch_max has to return the same indices and the same rows."""
    from skactiveml.base import SingleAnnotatorPoolQueryStrategy as Base
    from ..translate import skeleton as TS
    from ..core import fkey, rank_keys, noise_num, vlist, zlist, natlit, natlist, listlit
    sites, _ = TS.scan()
    canon = {s_["cls"] for s_ in sites if TS.is_canonical(s_) and s_["method"] is None}
    other_path = {"BatchBALD", "DiscriminativeAL[greedy=False]"}          # these configurations take the hand-written loop of their class
    terms, meta = [], []
    for case, out in zip(cases, outs):
        E = entries[case["eidx"]]
        if out["status"] != "ok" or E.mode != "max" or E.stochastic or E.base in other_path or (E.wrapper and E.subsample):
            continue
        qs = E.make(case["classes"], case["seed"])
        if not ({c.__name__ for c in type(qs).__mro__} & canon):
            continue
        ut, idx = np.asarray(out["ut"], dtype=float), np.asarray(out["idx"]).ravel()
        if ut.ndim != 2 or len(idx) == 0 or len(idx) != len(ut) or np.isinf(ut).any():
            continue
        cand = None if case["cand"] is None else np.array(case["cand"])
        import warnings
        with warnings.catch_warnings():
            warnings.simplefilter("ignore")
            Base._validate_data(qs, case["X"], case["y"], cand, case["bs"], True)
        w = ut.shape[1]
        noises = [qs.random_state_.random(w) for _ in range(len(idx))]
        keys = rank_keys([fkey(v) for v in ut.ravel()])
        U = keys[:w]
        rows = listlit([vlist(keys[r * w:(r + 1) * w]) for r in range(len(idx))])
        nz = listlit([zlist(rank_keys([noise_num(x) for x in z])) for z in noises])
        picks = listlit([natlist([int(p)]) for p in idx])
        terms.append(f"({vlist(U)}, {natlist([w])}, {nz}, {natlit(len(idx))}, {picks}, {rows})")
        meta.append((case, out))
        ctx.count("canonical_replay:" + E.name)
    bad, err = ctx.coq_eval_cases("replay", "From V Require Import Base.OptOrder Model.Sel Harness.Run Harness.SelCheck.", "check_batch", terms, chunk=200)
    if err:
        ctx.violation("canonical_replay", "model_eval_failed", err, {}, found_input=False, what="Coq evaluation of check_batch (canonical replay) failed")
    for i in bad[:8]:
        c, o = meta[i]
        ctx.violation(c["name"], "canonical_replay_mismatch", "indices / rows are not simple_batch_max of the first utility row under the strategy's own noise",
                      PL.case_replay(c, o), found_input=False,
                      what=f"correspondence simple_batch_max (Model/Sel.v) <-> {c['name']}.query (canonical tail, noise reproduced) no longer holds")
    ctx.extra["canonical_replay_strategies"] = sorted({m[0]["name"] for m in meta})


def skeleton_correspondence(ctx):
    """Functional correspondence of Model/PoolQuery.skeleton (NaN-filled utilities, scores scattered through
    the mapping, simple_batch) with UncertaintySampling.query driven by a scripted classifier: the scores
    are computed independently (uncertainty_scores on the scripted probabilities), the tie-breaking noise is
    reproduced from the strategy's random state, and the model has to return the same indices AND the same
    utility rows for all three ways of giving candidates."""
    import warnings
    from skactiveml.base import SkactivemlClassifier
    from skactiveml.pool import UncertaintySampling
    from skactiveml.pool._uncertainty_sampling import uncertainty_scores
    from ..core import fkey, rank_keys, noise_num, vlist, zlist, natlit, natlist, listlit, blit

    class Scripted(SkactivemlClassifier):
        def __init__(self, table=None, classes=None, missing_label=np.nan, random_state=None):
            super().__init__(classes=classes, missing_label=missing_label, random_state=random_state)
            self.table = table

        def fit(self, X, y, sample_weight=None):
            self._validate_data(X, y, sample_weight)
            return self

        def predict_proba(self, X):
            p = np.array([self.table[int(x[0])] for x in np.asarray(X)])
            return np.column_stack([p, 1 - p])

    rng = ctx.rng("skeleton")
    terms, meta = [], []
    for h in range(300 if ctx.is_quick else 3000):
        n = int(rng.integers(2, 8))
        vals = rng.choice([0.5, 0.6, 0.75, 0.9, 1.0], size=int(rng.integers(1, 4)), replace=False)
        table = [float(v) for v in rng.choice(vals, size=n)]
        X = np.arange(n, dtype=float).reshape(-1, 1)
        y = np.where(rng.random(n) < 0.35, 0.0, np.nan)
        if not np.isnan(y).any():
            y[int(rng.integers(0, n))] = np.nan
        cmode = str(rng.choice(["none", "idx", "feat"]))
        if cmode == "none":
            cand, cs, ncols, kind, cl, cm = None, [int(i) for i in np.flatnonzero(np.isnan(y))], n, 0, [], 0
        elif cmode == "idx":
            cand = rng.integers(0, n, size=int(rng.integers(1, n + 2)))       # unsorted, duplicates, labeled samples allowed
            cs, ncols, kind, cl, cm = sorted({int(i) for i in cand}), n, 1, [int(i) for i in cand], 0
        else:
            m = int(rng.integers(1, n + 1))
            rows = rng.integers(0, n, size=m)
            cand = X[rows]
            cs, ncols, kind, cl, cm = list(range(m)), m, 2, [], m
        bs = int(rng.integers(1, len(cs) + 3))
        seed = int(rng.integers(0, 1000))
        clf = Scripted(table=table, classes=[0, 1])
        with warnings.catch_warnings():
            warnings.simplefilter("ignore")
            qs = UncertaintySampling(random_state=seed)
            idx, ut = qs.query(X, y, clf=clf, fit_clf=False, candidates=cand, batch_size=bs, return_utilities=True)
            twin = UncertaintySampling(random_state=seed)
            twin._validate_data(X, y, cand, bs, True)           # the random state query started from
        Xc = X[cs] if cmode != "feat" else cand
        scores = uncertainty_scores(clf.predict_proba(Xc), method="least_confident")
        k = min(bs, len(cs))
        noises = [twin.random_state_.random(ncols) for _ in range(k)]
        ut = np.asarray(ut, dtype=float)
        keys = rank_keys([fkey(v) for v in scores] + [fkey(v) for v in ut.ravel()])
        sk, uk = keys[:len(scores)], keys[len(scores):]
        w = ut.shape[1]
        steps = listlit([f"({natlit(int(p))}, {vlist(uk[r * w:(r + 1) * w])})" for r, p in enumerate(np.asarray(idx).ravel())])
        nz = listlit([zlist(rank_keys([noise_num(x) for x in z])) for z in noises])
        lab = listlit([blit(not np.isnan(v)) for v in y])
        terms.append(f"({lab}, {natlit(kind)}, {natlist(cl)}, {natlit(cm)}, {natlit(bs)}, {vlist(sk)}, {nz}, {steps})")
        meta.append({"table": table, "y": [None if np.isnan(v) else v for v in y], "candidates_mode": cmode,
                     "candidates": None if cand is None else np.asarray(cand).tolist(), "batch_size": bs, "seed": seed,
                     "returned_indices": np.asarray(idx).tolist()})
        ctx.count("skeleton_correspondence")
        ctx.hist["skeleton:" + cmode] += 1
        if k >= 2 and len(set(table)) < len(table):
            ctx.nontriv(("skeleton", tuple(table), y.tobytes(), cmode, repr(meta[-1]["candidates"]), bs, seed))
    bad, err = ctx.coq_eval_cases("skeleton", PL.IMPORTS, "check_skeleton", terms, chunk=150)
    if err:
        ctx.violation("skeleton", "model_eval_failed", err, {}, found_input=False, what="Coq evaluation of check_skeleton failed")
    for i in bad[:5]:
        ctx.violation("UncertaintySampling", "skeleton_mismatch", "Model/PoolQuery.skeleton and UncertaintySampling.query disagree on indices or utility rows",
                      meta[i], found_input=False, what="correspondence skeleton <-> UncertaintySampling.query (scripted classifier) no longer holds")
    if meta:
        ctx.sample({"skeleton_case": meta[0]})


def replay(ctx, path):
    rec = json.load(open(path))
    case, out = PL.replay_case(rec["case"])
    E = PL._entries()[case["eidx"]]
    res = PL.oracle_c02(case, out, E.mode) if out["status"] == "ok" else ("exception", out.get("msg"))
    print("replay:", out.get("status"), res or "property holds on this input")
    if res:
        ctx.violation(case["name"], res[0], res[1], rec["case"], what=res[1])
    ctx.coq_props()
