"""Dynamic oracles for the stream properties on the real objects (managers,
BIQF, and all stream query strategies with their default managers)."""
import copy

import numpy as np

from .. import stream as S


def _registry():
    """name -> factory(seed, budget) of stream strategies (classifier based)."""
    from skactiveml.classifier import ParzenWindowClassifier
    import skactiveml.stream as st
    import skactiveml.stream.budgetmanager as bm
    reg = {}
    for name in ["FixedUncertainty", "VariableUncertainty", "RandomVariableUncertainty", "Split",
                 "StreamProbabilisticAL", "StreamDensityBasedAL", "CognitiveDualQueryStrategyRan",
                 "CognitiveDualQueryStrategyFixUn", "CognitiveDualQueryStrategyRanVarUn", "CognitiveDualQueryStrategyVarUn"]:
        cls = getattr(st, name, None)
        if cls is None:
            continue
        def fac(seed, budget, cls=cls, name=name):
            import inspect
            kw = {"budget": budget, "random_state": seed}
            if "classes" in inspect.signature(cls.__init__).parameters:
                kw["classes"] = [0, 1]
            return cls(**kw)
        reg[name] = fac
    # ---- non-default configurations ("all stream strategies ... all budgets") ----
    def explicit(cls, mgr, needs_classes=False):
        # budget and an explicit manager with ANOTHER budget: documented behaviour = the manager is used as it is (with a warning)
        def fac(seed, budget):
            kw = {"budget": budget, "random_state": seed}
            mkw = {"budget": 0.37 if abs(budget - 0.37) > 1e-9 else 0.2}
            if mgr is bm.FixedUncertaintyBudgetManager:
                mkw["classes"] = [0, 1]
            import inspect
            if "random_state" in inspect.signature(mgr.__init__).parameters:
                mkw["random_state"] = seed + 1        # an unseeded manager would legitimately depend on the global generator
            if needs_classes:
                kw["classes"] = [0, 1]
            return cls(budget_manager=mgr(**mkw), **kw)
        return fac
    def unbudgeted(cls, mgr, needs_classes=False):
        # an explicit manager that leaves its own budget open (None): the strategy's budget / the default applies to a private copy
        def fac(seed, budget):
            import inspect
            kw = {"budget": budget, "random_state": seed}
            mkw = {"budget": None}
            if mgr is bm.FixedUncertaintyBudgetManager:
                mkw["classes"] = [0, 1]
            if "random_state" in inspect.signature(mgr.__init__).parameters:
                mkw["random_state"] = seed + 1
            if needs_classes:
                kw["classes"] = [0, 1]
            return cls(budget_manager=mgr(**mkw), **kw)
        return fac
    reg["VariableUncertainty{explicit_manager,budget=None}"] = unbudgeted(st.VariableUncertainty, bm.VariableUncertaintyBudgetManager)
    reg["Split{explicit_manager,budget=None}"] = unbudgeted(st.Split, bm.SplitBudgetManager)
    reg["StreamProbabilisticAL{explicit_manager,budget=None}"] = unbudgeted(st.StreamProbabilisticAL, bm.BalancedIncrementalQuantileFilter)
    reg["FixedUncertainty{explicit_manager}"] = explicit(st.FixedUncertainty, bm.FixedUncertaintyBudgetManager, True)
    reg["VariableUncertainty{explicit_manager}"] = explicit(st.VariableUncertainty, bm.VariableUncertaintyBudgetManager)
    reg["RandomVariableUncertainty{explicit_manager}"] = explicit(st.RandomVariableUncertainty, bm.RandomVariableUncertaintyBudgetManager)
    reg["Split{explicit_manager}"] = explicit(st.Split, bm.SplitBudgetManager)
    reg["StreamProbabilisticAL{explicit_manager}"] = explicit(st.StreamProbabilisticAL, bm.BalancedIncrementalQuantileFilter)
    reg["StreamDensityBasedAL{explicit_manager}"] = explicit(st.StreamDensityBasedAL, bm.DensityBasedSplitBudgetManager)
    reg["CognitiveDualQueryStrategy{explicit_manager,full_budget}"] = lambda seed, budget: st.CognitiveDualQueryStrategy(
        budget=budget, budget_manager=bm.VariableUncertaintyBudgetManager(budget=0.37), force_full_budget=True, cognition_window_size=3, random_state=seed)
    reg["StreamProbabilisticAL{rbf,gamma=mean}"] = lambda seed, budget: st.StreamProbabilisticAL(
        metric="rbf", metric_dict={"gamma": "mean"}, prior=0.5, m_max=3, budget=budget, random_state=seed)
    reg["StreamProbabilisticAL{rbf,gamma=0.5}"] = lambda seed, budget: st.StreamProbabilisticAL(
        metric="rbf", metric_dict={"gamma": 0.5}, budget=budget, random_state=seed)
    # a caller-supplied dictionary that leaves the bandwidth open (the dictionary stays the caller's: nothing may be written into it)
    reg["StreamProbabilisticAL{rbf,metric_dict={}}"] = lambda seed, budget: st.StreamProbabilisticAL(
        metric="rbf", metric_dict={}, budget=budget, random_state=seed)
    reg["StreamDensityBasedAL{window=3,dist_func_dict}"] = lambda seed, budget: st.StreamDensityBasedAL(
        window_size=3, dist_func_dict={"metric": "manhattan"}, budget=budget, random_state=seed)
    reg["CognitiveDualQueryStrategyVarUn{full_budget,threshold=0,window=2}"] = lambda seed, budget: st.CognitiveDualQueryStrategyVarUn(
        force_full_budget=True, density_threshold=0, cognition_window_size=2, dist_func_dict={"metric": "manhattan"}, budget=budget, random_state=seed)
    return reg


def param_snapshot(qs):
    """constructor parameters with their CONTENTS (dicts, nested managers): query must not change what get_params reports"""
    from ..snap import deep_snap
    try:
        return deep_snap(qs.get_params(deep=True))
    except Exception:
        return None


def _clf(seed):
    from skactiveml.classifier import ParzenWindowClassifier
    rng = np.random.default_rng(seed)
    X = rng.integers(0, 4, size=(30, 2)).astype(float)
    y = (X[:, 0] > 1).astype(float)
    y[rng.random(30) < 0.3] = np.nan
    clf = ParzenWindowClassifier(classes=[0, 1], random_state=seed)
    clf.fit(X, y)
    return clf, X, y


def _query(name, qs, cand, clf, X, y):
    kw = {}
    if name.startswith("StreamProbabilisticAL"):
        kw = {"X": X, "y": y}
    return qs.query(cand, clf=clf, return_utilities=True, **kw)


def _update(name, qs, cand, idx, ut):
    import inspect
    params = inspect.signature(qs.update).parameters
    kw = {}
    if "utilities" in params:
        kw["utilities"] = ut
    if "budget_manager_param_dict" in params and name.startswith("StreamProbabilisticAL"):
        kw["budget_manager_param_dict"] = {"utilities": ut}
    return qs.update(cand, idx, **kw)


def strategy_purity(ctx, report_update=True, report_purity=True):
    """query leaves every fitted attribute (nested manager, windows incl. deque maxlen, RNG) unchanged;
    repeated query gives the same result; update accepts query's result."""
    reg = _registry()
    nrun = 3 if ctx.is_quick else 25
    for name, fac in reg.items():
        for h in range(nrun):
            rng = ctx.rng("strat", name, h)
            seed = int(rng.integers(0, 1000))
            budget = float(rng.choice([0.1, 0.3, 0.8]))
            clf, X, y = _clf(seed)
            qs = fac(seed, budget)
            ok = True
            nsteps = 45 if h == 0 else 12
            for step in range(nsteps):
                cand = rng.integers(0, 4, size=(int(rng.integers(1, 6)), 2)).astype(float)
                try:
                    pbefore = param_snapshot(qs)       # constructor parameters: from the very first query on
                    if step > 0:
                        before = S.snapshot(qs)
                    if step % 3 == 2:          # a "peek" with other training data than the regular query that follows
                        keep = rng.random(len(y)) < 0.6
                        _query(name, qs, cand, clf, X[keep], y[keep])
                    idx, ut = _query(name, qs, cand, clf, X, y)
                    if True:
                        d = S.diff_snap(before, S.snapshot(qs)) if step > 0 else []
                        from ..snap import diff_keys
                        if not d and pbefore is not None:
                            dp = diff_keys(pbefore, param_snapshot(qs))
                            d = ["constructor parameter " + str(k) for k in dp[:4]]
                        if d and report_purity:
                            ctx.violation(name, "query_changed_state", f"query changed {d}", {"strategy": name, "seed": seed, "step": step},
                                          what=f"{name}.query changed fitted attributes {d}")
                            ok = False
                            break
                    idx2, ut2 = _query(name, qs, cand, clf, X, y)
                    if report_purity and (list(idx) != list(idx2) or not np.array_equal(np.asarray(ut), np.asarray(ut2), equal_nan=True)):
                        ctx.violation(name, "query_not_repeatable", f"{list(idx)} then {list(idx2)}", {"strategy": name, "seed": seed, "step": step},
                                      what=f"{name}.query is not repeatable")
                        ok = False
                        break
                    idl = [int(i) for i in idx]
                    if any(b <= a for a, b in zip(idl, idl[1:])) or any(i < 0 or i >= len(cand) for i in idl) or len(ut) != len(cand):
                        ctx.violation(name, "indices_malformed", f"{idl} / {len(ut)} utilities for {len(cand)} candidates", {"strategy": name, "seed": seed})
                except Exception as e:
                    ctx.violation(name, "query_exception", repr(e), {"strategy": name, "seed": seed, "step": step},
                                  what=f"{name}.query raised {type(e).__name__}")
                    ok = False
                    break
                try:
                    _update(name, qs, cand, idx, ut)
                except Exception as e:
                    if report_update:
                        ctx.violation(name, "update_exception", repr(e), {"strategy": name, "seed": seed, "step": step, "idx": [int(i) for i in idx],
                                                                          "candidates": cand.tolist()},
                                      what=f"{name}.update rejected the result of its own query: {type(e).__name__}")
                    ok = False
                    break
                ctx.count("strategy:" + name)
            if ok:
                ctx.nontriv(("strat", name, seed, budget))
    if report_purity:
        biqf_purity(ctx)


def biqf_purity(ctx):
    import skactiveml.stream.budgetmanager as bm
    for h in range(6 if ctx.is_quick else 60):
        rng = ctx.rng("biqf", h)
        w = int(rng.choice([3, 5, 20]))
        m = bm.BalancedIncrementalQuantileFilter(w=w, w_tol=int(rng.choice([5, 50])), budget=float(rng.choice([0.1, 0.5])))
        for step in range(3 * w):
            u = rng.random(int(rng.integers(1, 6)))
            if step > 0:
                before = S.snapshot(m)
            r1 = m.query_by_utility(u)
            if step > 0:
                d = S.diff_snap(before, S.snapshot(m))
                if d:
                    ctx.violation("BIQF", "query_changed_state", f"query changed {d}", {"w": w, "step": step},
                                  what=f"BalancedIncrementalQuantileFilter.query_by_utility changed {d}")
                    break
            r2 = m.query_by_utility(u)
            if list(r1) != list(r2):
                ctx.violation("BIQF", "query_not_repeatable", f"{r1} then {r2}", {"w": w, "step": step})
                break
            try:
                m.update(np.zeros((len(u), 1)), r1, u)
            except Exception as e:
                ctx.violation("BIQF", "update_exception", repr(e), {"w": w, "step": step})
                break
            ctx.count("BIQF")
        ctx.nontriv(("biqf", h))


def extra_query_oracle(ctx):
    """Same update history with and without extra queries -> identical later results and final state."""
    kinds = S.ALL_KINDS
    for kind in kinds:
        for h in range(4 if ctx.is_quick else 40):
            rng = ctx.rng("xq", kind, h)
            p = S.gen_params(rng, kind)
            chunks = [rng.random(int(rng.integers(1, 6))) for _ in range(8)]
            extra = [[rng.random(int(rng.integers(1, 6))) for _ in range(int(rng.integers(0, 3)))] for _ in chunks]
            outs = []
            for with_extra in (False, True):
                m = S.make(p)
                res = []
                try:
                    for c, ex in zip(chunks, extra):
                        if with_extra:
                            for e in ex:
                                S.do_query(m, p, e)
                        r, _ = S.do_query(m, p, c)
                        res.append(r)
                        raw = m.query_by_utility(np.asarray(c)) if not S.is_strategy(kind) else m.query(np.zeros((len(c), 1)))
                        S.do_update(m, p, len(c), raw)
                except Exception as e:
                    ctx.violation(kind, "exception", repr(e), {"params": p})
                    break
                outs.append((res, S.snapshot(m)))
            ctx.count("extra_queries:" + kind)
            if len(outs) == 2 and (outs[0][0] != outs[1][0] or outs[0][1] != outs[1][1]):
                ctx.violation(kind, "extra_queries_visible", "results or final state differ when extra queries are made",
                              {"params": p, "chunks": [[float(x).hex() for x in c] for c in chunks]},
                              what=f"{kind}: extra query calls changed later results / state")


# attributes written by input validation of query only (derived from constructor parameters / input width);
# they carry no behaviour and an update-only object legitimately lacks them
VALIDATION_ONLY = {"budget_", "n_features_in_", "feature_names_in_"}


def update_only_twin(ctx):
    """C03 at the level of whole histories: an object that is only ever updated (never queried)
    must have, after every update, exactly the state of a twin that is also queried (extra
    queries are invisible).  Catches state that query smuggles in during lazy initialisation."""
    reg = _registry()
    for name, fac in reg.items():
        for h in range(2 if ctx.is_quick else 12):
            rng = ctx.rng("twin", name, h)
            seed = int(rng.integers(0, 1000))
            budget = float(rng.choice([0.1, 0.3, 0.8]))
            clf, X, y = _clf(seed)
            a, b = fac(seed, budget), fac(seed, budget)
            wsz = 12
            for obj in (a, b):
                for attr in ("window_size", "cognition_window_size"):
                    if hasattr(obj, attr):
                        setattr(obj, attr, wsz)
            nsteps = 30
            try:
                for step in range(nsteps):
                    cand = rng.integers(0, 4, size=(int(rng.integers(1, 6)), 2)).astype(float)
                    idx, ut = _query(name, a, cand, clf, X, y)
                    if step % 3 == 1:
                        # another chunk is committed (without having been queried) between query(A) and update(A): whatever the query
                        # of A left behind in the queried twin must not survive it
                        candB = rng.integers(0, 4, size=(int(rng.integers(1, 4)), 2)).astype(float)
                        utB = np.full(len(candB), 0.25)
                        _update(name, a, candB, [], utB)
                        _update(name, b, candB, [], utB)
                    _update(name, a, cand, idx, ut)
                    _update(name, b, cand, idx, ut)
                    sa, sb = S.snapshot(a), S.snapshot(b)
                    d = [k for k in S.diff_snap(sa, sb) if k not in VALIDATION_ONLY
                         and not (k == "random_state_" and k not in sb)]   # created by query's validation, unused by update
                    if d:
                        ctx.violation(name, "query_visible_in_state", f"queried twin differs from update-only twin in {d} after step {step}",
                                      {"strategy": name, "seed": seed, "budget": budget, "step": step},
                                      what=f"{name}: an object that was queried differs from an update-only twin in {d}")
                        break
                    ctx.count("twin:" + name)
            except Exception:
                continue   # update exceptions belong to C10
            ctx.nontriv(("twin", name, seed))


BIQF_IMPORTS = ("From Coq Require Import PrimFloat.\nFrom V Require Import Base.Num Model.StreamCore Model.Biqf "
                "Harness.Run Harness.StreamCheck.")


def biqf_model_correspondence(ctx, tag):
    """BalancedIncrementalQuantileFilter against the binary64 instance of Model/Biqf.v: histories of
    interleaved queries (0-2 extra queries on unrelated chunks per step) and updates in chunks of 1-6;
    after every call the returned indices, observed_samples_, queried_samples_ and history_sorted_ must
    equal the model's, bit for bit.  np.quantile is the model's oracle: the harness tabulates it for
    every window it derives itself from the definition (last w utilities of committed history + prefix)."""
    import skactiveml.stream.budgetmanager as bm
    from ..core import flit, listlit, natlist, natlit, zlit
    terms, meta = [], []
    for h in range(40 if ctx.is_quick else 400):
        rng = ctx.rng("biqfm", tag, h)
        w = int(rng.choice([1, 2, 3, 5, 8]))
        wtol = rng.choice([1, 5, 50, 2.5])
        wtol = float(wtol) if wtol == 2.5 else int(wtol)
        b = float(rng.choice([0.1, 0.3, 0.5, 0.9, 1.0]))
        m = bm.BalancedIncrementalQuantileFilter(w=w, w_tol=wtol, budget=b)
        committed, table, ops = [], {}, []
        vals = rng.choice([0.1, 0.5, 0.5, 0.9], size=4) if rng.random() < 0.3 else None      # tie-heavy streams

        def draw(k):
            return rng.choice(vals, size=k) if vals is not None else rng.random(k)

        def tabulate(chunk):
            for j in range(len(chunk)):
                win = (committed + [float(x) for x in chunk[:j + 1]])[-w:]
                table[tuple(float(x).hex() for x in win)] = (win, float(np.quantile(np.array(win), 1 - b)))

        def state():
            return (f"{zlit(int(m.observed_samples_))} {zlit(int(m.queried_samples_))} "
                    f"{listlit([flit(x) for x in m.history_sorted_])}")
        ok = True
        try:
            for step in range(int(rng.integers(4, 10))):
                for _ in range(int(rng.integers(0, 3))):
                    ex = draw(int(rng.integers(1, 6)))
                    tabulate(ex)
                    r = m.query_by_utility(ex)
                    ops.append(f"BQuery {listlit([flit(x) for x in ex])} {natlist([int(i) for i in r])} {state()}")
                c = draw(int(rng.integers(1, 7)))
                tabulate(c)
                r = m.query_by_utility(c)
                ops.append(f"BQuery {listlit([flit(x) for x in c])} {natlist([int(i) for i in r])} {state()}")
                m.update(np.zeros((len(c), 1)), r, c)
                committed += [float(x) for x in c]
                ops.append(f"BUpdate {listlit([flit(x) for x in c])} {natlist([int(i) for i in r])} {state()}")
        except Exception as e:
            ctx.hist[f"biqf_exception:{type(e).__name__}"] += 1
            ok = False
        if not ok:
            continue
        tab = listlit([f"({listlit([flit(x) for x in win])}, {flit(th)})" for win, th in table.values()])
        terms.append(f"({flit(b)}, {natlit(w)}, {flit(float(wtol))}, {tab}, {listlit(ops)})")
        meta.append({"w": w, "w_tol": wtol, "budget": b, "stream": [float(x).hex() for x in committed]})
        ctx.count("BIQF_model")
        if len(committed) > w:
            ctx.nontriv(("biqfm", tag, h))
    bad, err = ctx.coq_eval_cases("biqf_" + tag, BIQF_IMPORTS, "check_biqf", terms, chunk=20)
    if err:
        ctx.violation("BIQF", "model_eval_failed", err, {}, found_input=False, what="Coq evaluation of check_biqf failed")
    for i in bad[:3]:
        ctx.violation("BIQF", "model_mismatch", "binary64 instance of Model/Biqf.v disagrees with BalancedIncrementalQuantileFilter", meta[i],
                      found_input=False, what="correspondence Model/Biqf.v <-> BalancedIncrementalQuantileFilter no longer holds")
