"""Entry point: ./check Cxx [--tier quick|thorough] [--replay file]."""
import argparse
import importlib
import os
import sys
import traceback

from .core import Ctx


def main():
    ap = argparse.ArgumentParser()
    ap.add_argument("prop")
    ap.add_argument("--tier", default=os.environ.get("VERIF_TIER", "quick"))
    ap.add_argument("--replay", default=None)
    args = ap.parse_args()
    tier = args.tier if args.tier in ("quick", "thorough") else "quick"
    seed = int(os.environ.get("VERIF_SEED", "0") or 0)
    prop = args.prop.upper()
    mod = importlib.import_module(f"harness.props.{prop.lower()}")
    if args.replay:
        os.environ["VERIF_KEEP_REPLAYS"] = "1"
    ctx = Ctx(prop, tier, seed, getattr(mod, "LEVEL", "proof"))
    try:
        if args.replay:
            mod.replay(ctx, args.replay)
        else:
            mod.run(ctx)
    except Exception:  # machinery failure is reported, never swallowed
        ctx.violation(
            "harness", "internal_error", traceback.format_exc()[-3000:],
            {"note": "the check itself crashed"}, found_input=False,
            what="check machinery raised an exception",
        )
    sys.exit(ctx.finish())


if __name__ == "__main__":
    main()
