"""Entry point: ./check Cxx [--tier quick|thorough] [--replay file]."""
import argparse
import importlib
import os
import sys
import traceback

from .core import Ctx


def main():
    ap = argparse.ArgumentParser()
    ap.add_argument("prop")
    ap.add_argument("--tier", default=os.environ.get("VERIF_TIER", "quick"))
    ap.add_argument("--replay", default=None)
    args = ap.parse_args()
    tier = args.tier if args.tier in ("quick", "thorough") else "quick"
    seed = int(os.environ.get("VERIF_SEED", "0") or 0)
    prop = args.prop.upper()
    mod = importlib.import_module(f"harness.props.{prop.lower()}")
    rec = None
    if args.replay:
        import json
        os.environ["VERIF_KEEP_REPLAYS"] = "1"
        rec = json.load(open(args.replay))
        # a replay re-creates the situation of the recorded run: same seed, same tier
        seed = int(rec.get("seed", seed))
        tier = rec.get("tier", tier) if rec.get("tier") in ("quick", "thorough") else tier
    ctx = Ctx(prop, tier, seed, getattr(mod, "LEVEL", "proof"))
    try:
        if rec is not None and rec.get("found_input"):
            try:
                mod.replay(ctx, args.replay)
            except Exception:
                print("replay: the single recorded case could not be re-run in isolation; re-running the whole check with the recorded seed and tier", flush=True)
                ctx = Ctx(prop, tier, seed, getattr(mod, "LEVEL", "proof"))
                mod.run(ctx)
        elif rec is not None:
            print(f"replay: the record names an obligation / correspondence that no longer checks ({rec.get('what')}); "
                  "re-running the whole check with the recorded seed and tier", flush=True)
            mod.run(ctx)
        else:
            mod.run(ctx)
    except Exception:  # machinery failure is reported, never swallowed
        ctx.violation(
            "harness", "internal_error", traceback.format_exc()[-3000:],
            {"note": "the check itself crashed"}, found_input=False,
            what="check machinery raised an exception",
        )
    sys.exit(ctx.finish())


if __name__ == "__main__":
    main()
