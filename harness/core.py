"""Shared machinery: Coq build / evaluation, evidence, violations, known findings."""
import collections
import fcntl
import hashlib
import json
import math
import multiprocessing as mp
import os
import re
import signal
import struct
import subprocess
import sys
import time
from concurrent.futures import ThreadPoolExecutor

ROOT = os.path.dirname(os.path.dirname(os.path.abspath(__file__)))
COQ = os.path.join(ROOT, "coq")
from .repo_root import REPO
NPROC = min(16, os.cpu_count() or 4)

AXIOM_WHITELIST = {
    # standard-library axioms that may legitimately appear (named in DESIGN.md section 7)
    "functional_extensionality_dep", "FunctionalExtensionality.functional_extensionality_dep",
    "classic", "Classical_Prop.classic", "proof_irrelevance", "JMeq_eq", "Eqdep.Eq_rect_eq.eq_rect_eq",
    "ClassicalDedekindReals.sig_forall_dec", "ClassicalDedekindReals.sig_not_dec",
    "sig_forall_dec", "sig_not_dec", "constructive_indefinite_description",
}
FORBIDDEN = re.compile(
    r"\b(Admitted|admit|Axiom|Axioms|Parameter|Parameters|Conjecture|Conjectures|Admit Obligations|"
    r"bypass_check|Unset Guard Checking|Unset Positivity Checking|Unset Universe Checking|type-in-type|"
    r"impredicative-set|native_compute)\b"
)


# ----------------------------------------------------------------------------
# float <-> order key, Coq literal printers
# ----------------------------------------------------------------------------
def fkey(x):
    """Monotone integer key of a binary64; None for NaN; -0.0 and +0.0 -> 0."""
    x = float(x)
    if x != x:
        return None
    bits = struct.unpack("<q", struct.pack("<d", x))[0]
    if bits < 0:
        return -(bits & 0x7FFFFFFFFFFFFFFF)
    return bits


def rank_keys(keys):
    """Order-isomorphic compression of a collection of keys (None = NaN kept):
    negative keys -> -1, -2, ... (order preserved), 0 -> 0, positive -> 1, 2, ...
    The models only compare keys with each other and with 0."""
    vals = sorted({k for k in keys if k is not None})
    pos = [k for k in vals if k > 0]
    neg = [k for k in vals if k < 0]
    m = {0: 0}
    for i, k in enumerate(pos):
        m[k] = i + 1
    for i, k in enumerate(reversed(neg)):
        m[k] = -(i + 1)
    return [None if k is None else m[k] for k in keys]


def zlit(k):
    k = int(k)
    return f"({k})" if k < 0 else str(k)


def vlit(k):
    return "None" if k is None else f"(Some {zlit(k)})"


def natlit(n):
    return f"{int(n)}%nat"


def blit(b):
    return "true" if b else "false"


def listlit(items):
    return "[" + "; ".join(items) + "]"


def zlist(ks):
    return listlit([zlit(k) for k in ks])


def vlist(ks):
    return listlit([vlit(k) for k in ks])


def natlist(ns):
    return listlit([natlit(n) for n in ns])


def flit(x):
    """PrimFloat literal (bit exact)."""
    x = float(x)
    if x != x:
        return "nan%float"
    if x == math.inf:
        return "infinity%float"
    if x == -math.inf:
        return "neg_infinity%float"
    h = x.hex()
    if h.startswith("-"):
        return f"(-{h[1:]})%float"
    return f"{h}%float"


def qlit(fr):
    """Q literal from a fractions.Fraction."""
    n, d = fr.numerator, fr.denominator
    return f"({zlit(n)} # {d})"


def noise_num(x):
    """53-bit numerator of a draw of RandomState.random()."""
    return int(float(x) * 9007199254740992.0)


def relayout(a, mode):
    """the same values in a different memory layout (results may only depend on the values):
    0 = as built, 1 = Fortran order, 2 = transposed view of a C array (2-D), 3 = strided view of a wider array"""
    import numpy as np
    if a is None or getattr(a, "ndim", 0) < 2 or mode % 4 == 0:
        return a
    mode %= 4
    if mode == 1:
        return np.asfortranarray(a)
    if mode == 2:
        return np.ascontiguousarray(a.T).T
    wide = np.empty(a.shape[:-1] + (2 * a.shape[-1],), dtype=a.dtype)
    wide[..., ::2] = a
    wide[..., 1::2] = a[..., ::-1]
    return wide[..., ::2]


# ----------------------------------------------------------------------------
# per-case timeout helper (used inside worker processes)
# ----------------------------------------------------------------------------
class CaseTimeout(Exception):
    pass


def _alarm(signum, frame):
    raise CaseTimeout()


def with_timeout(fn, secs, *a, **kw):
    old = signal.signal(signal.SIGALRM, _alarm)
    signal.setitimer(signal.ITIMER_REAL, secs)
    try:
        return fn(*a, **kw)
    finally:
        signal.setitimer(signal.ITIMER_REAL, 0)
        signal.signal(signal.SIGALRM, old)


def err_class(e):
    """Map exceptions to a small enum (messages are ignored)."""
    if isinstance(e, CaseTimeout):
        return "Timeout"
    for cls in (ValueError, TypeError, IndexError, KeyError, AttributeError, NameError,
                ZeroDivisionError, RuntimeError, AssertionError):
        if isinstance(e, cls):
            return cls.__name__
    return type(e).__name__


def pmap(func, items, procs=NPROC, chunksize=1):
    """Run func over items in worker processes (fork); order preserved."""
    items = list(items)
    if not items:
        return []
    if procs <= 1 or len(items) == 1:
        return [func(it) for it in items]
    ctx = mp.get_context("fork")
    with ctx.Pool(min(procs, len(items))) as pool:
        return pool.map(func, items, chunksize)


# ----------------------------------------------------------------------------
class Ctx:
    def __init__(self, prop, tier, seed, level="proof"):
        self.prop, self.tier, self.seed, self.level = prop, tier, seed, level
        self.t0 = time.time()
        self.build = os.path.join(ROOT, "build", prop)
        os.makedirs(self.build, exist_ok=True)
        os.makedirs(os.path.join(ROOT, "evidence"), exist_ok=True)
        os.makedirs(os.path.join(ROOT, "replays"), exist_ok=True)
        import glob
        for old in glob.glob(os.path.join(ROOT, "replays", f"{prop}-*.json")):
            if not os.environ.get("VERIF_KEEP_REPLAYS"):
                os.remove(old)
        self.obligations = []          # {name, discharged, assumptions}
        self.evaluations = 0
        self.nontrivial = set()
        self.samples = []
        self.hist = collections.Counter()
        self.violations = []
        self.known_hits = collections.Counter()
        self.components = collections.OrderedDict()
        self.extra = {}
        self.trusted = [
            "Coq 8.16.1 kernel (coqc; vm_compute used for table theorems, witnesses and model evaluation; no native_compute)",
            "harness/: generators, float->order-key encoder, canonicalisers, diff, tracing/recording adapters",
        ]
        self.assume = []
        self.checker_cmd = f"make -C coq && coqc -Q coq V coq/Props/{prop}.v (Print Assumptions parsed)"
        kf = json.load(open(os.path.join(ROOT, "known_findings.json")))
        self.known = [f for f in kf.get("findings", []) if f["property"] == prop]
        self.is_quick = tier == "quick"

    # ---- randomness -------------------------------------------------------
    def rng(self, *shard):
        import numpy as np
        h = int(hashlib.sha256(repr((self.prop,) + shard).encode()).hexdigest()[:8], 16)
        return np.random.default_rng([self.seed, h])

    # ---- bookkeeping ------------------------------------------------------
    def count(self, component, n=1):
        self.evaluations += n
        self.components[component] = self.components.get(component, 0) + n

    def nontriv(self, key):
        self.nontrivial.add(hashlib.md5(repr(key).encode()).hexdigest())

    def sample(self, s, limit=6):
        if len(self.samples) < limit:
            self.samples.append(s)

    # ---- Coq --------------------------------------------------------------
    def coq_make(self):
        """Full (incremental) build of the development; serialised by a lock."""
        os.makedirs(os.path.join(ROOT, "build"), exist_ok=True)
        with open(os.path.join(ROOT, "build", ".lock"), "w") as lk:
            fcntl.flock(lk, fcntl.LOCK_EX)
            if not os.path.exists(os.path.join(COQ, "Makefile")):
                subprocess.run(["coq_makefile", "-f", "_CoqProject", "-o", "Makefile"], cwd=COQ, check=True,
                               stdout=subprocess.DEVNULL, stderr=subprocess.DEVNULL)
            p = subprocess.run(["timeout", "1500", "make", "-j", str(NPROC)], cwd=COQ,
                               stdout=subprocess.PIPE, stderr=subprocess.STDOUT, text=True)
        return p.returncode, p.stdout

    def coq_hygiene(self):
        bad = []
        for dp, _, fs in os.walk(COQ):
            for f in fs:
                if f.endswith(".v"):
                    txt = open(os.path.join(dp, f)).read()
                    for m in FORBIDDEN.finditer(txt):
                        bad.append(f"{os.path.relpath(os.path.join(dp, f), COQ)}: {m.group(0)}")
        return bad

    def coqc(self, vfile, extra_q=(), timeout=600):
        cmd = ["timeout", str(timeout), "coqc", "-Q", COQ, "V"]
        for d, n in extra_q:
            cmd += ["-Q", d, n]
        cmd.append(vfile)
        p = subprocess.run(cmd, stdout=subprocess.PIPE, stderr=subprocess.PIPE, text=True, cwd=self.build)
        return p.returncode, p.stdout, p.stderr

    def coq_props(self, props_file=None, extra_q=()):
        """Build everything, then re-check Props/<prop>.v and parse Print Assumptions.
        Returns True iff every obligation is discharged."""
        rc, out = self.coq_make()
        ok = True
        if rc != 0:
            self.obligations.append({"name": "make", "discharged": False, "assumptions": out[-1500:]})
            self.broken("coq_build", "make of the Coq development failed", out[-3000:])
            return False
        bad = self.coq_hygiene()
        if bad:
            self.broken("coq_hygiene", "forbidden construct in the development", "\n".join(bad[:20]))
            ok = False
        src = props_file or os.path.join(COQ, "Props", f"{self.prop}.v")
        local = os.path.join(self.build, os.path.basename(src))
        txt = open(src).read()
        with open(local, "w") as f:
            f.write(txt)
        rc, so, se = self.coqc(local, extra_q)
        thms = re.findall(r"^(?:Theorem|Example|Lemma|Corollary)\s+(\w+)", txt, re.M)
        pas = re.findall(r"^Print Assumptions\s+(\w+)\.", txt, re.M)
        if rc != 0:
            for t in thms:
                self.obligations.append({"name": t, "discharged": False, "assumptions": "coqc failed"})
            self.broken("coq_props", f"Props/{self.prop}.v no longer checks", (se or so)[-3000:])
            return False
        blocks = re.split(r"(?=Closed under the global context|Axioms:)", so)
        blocks = [b for b in blocks if b.startswith("Closed under") or b.startswith("Axioms:")]
        amap = {}
        for name, b in zip(pas, blocks):
            if b.startswith("Closed"):
                amap[name] = []
            else:
                amap[name] = re.findall(r"^(\S+)\s*:", b[len("Axioms:"):], re.M)
        for t in thms:
            ax = amap.get(t)
            entry = {"name": t, "discharged": True,
                     "assumptions": "Closed under the global context" if ax == [] else
                     ("(no Print Assumptions: Example)" if ax is None else ", ".join(ax))}
            if ax:
                notok = [a for a in ax if a.split(".")[-1] not in {w.split(".")[-1] for w in AXIOM_WHITELIST}
                         and not a.startswith(("PrimFloat.", "Uint63.", "PrimInt63.", "FloatOps.", "Float"))]
                if notok:
                    entry["discharged"] = False
                    ok = False
                    self.broken("coq_axioms", f"{t} depends on non-whitelisted axioms", ", ".join(notok))
            self.obligations.append(entry)
        if len(blocks) != len(pas):
            self.broken("coq_props", "Print Assumptions output could not be matched", so[-2000:])
            ok = False
        return ok

    def coq_eval_cases(self, tag, imports, check_fn, cases, chunk=300, extra_q=(), preamble=""):
        """cases: list of Coq terms (strings).  Evaluates `check_fn case` for each inside
        Coq (vm_compute) and returns (bad_indices, error_text_or_None)."""
        if not cases:
            return [], None
        files = []
        for ci in range(0, len(cases), chunk):
            name = f"cases_{tag}_{ci // chunk}"
            path = os.path.join(self.build, name + ".v")
            with open(path, "w") as f:
                f.write("From Coq Require Import ZArith List Bool QArith.\n")
                f.write(imports + "\nImport ListNotations.\nOpen Scope Z_scope.\n" + preamble + "\n")
                # the cases are an argument of bad_indices so that their type is inferred from check_fn's domain
                # (a chunk in which some list component is [] in every case has no inferable type on its own)
                f.write(f"Eval vm_compute in (V.Harness.Run.bad_indices ({check_fn}) [\n  ")
                f.write(";\n  ".join(cases[ci:ci + chunk]))
                f.write("\n]).\n")
            files.append((ci, path))

        def run(item):
            ci, path = item
            rc, so, se = self.coqc(path, extra_q, timeout=900)
            return ci, rc, so, se

        bad, err = [], None
        with ThreadPoolExecutor(max_workers=min(8, len(files))) as ex:
            for ci, rc, so, se in ex.map(run, files):
                if rc != 0:
                    err = (se or so)[-2000:]
                    continue
                m = re.search(r"=\s*(\[.*?\])", so, re.S)
                if not m:
                    err = "unparsable coqc output: " + so[-500:]
                    continue
                bad += [ci + int(x) for x in re.findall(r"\d+", m.group(1))]
        return sorted(bad), err

    # ---- violations -------------------------------------------------------
    def _match_known(self, component, kind, detail="", tags=()):
        component = re.sub(r"\{[^{}]*\}$", "", component)     # "Name{non-default setting}" : findings of the base entry apply
        for f in self.known:
            if not ((f["component"] == component or (f.get("component_prefix") and component.startswith(f["component_prefix"]))) and f["kind"] == kind):
                continue
            if f.get("detail_contains") and f["detail_contains"] not in str(detail):
                continue
            if f.get("requires_tags") and not set(f["requires_tags"]) <= set(tags):
                continue        # same component/kind but outside the recorded triggering condition
            return f
        return None

    def violation(self, component, kind, detail, replay, found_input=True, what=None, tags=()):
        """A property violation (found_input=True: concrete failing input on the
        implementation) or an unexplained broken proof / correspondence."""
        kf = self._match_known(component, kind, detail, tags) if found_input else None
        if kf is not None:
            self.known_hits[kf["id"]] += 1
            return
        same = len([v for v in self.violations if v and v["component"] == component and v["kind"] == kind])
        if len([v for v in self.violations if v]) >= 80 or same >= 10:       # at most 10 replays per (component, kind): other kinds stay visible
            self.violations.append(None)
            return
        n = len([v for v in self.violations if v])
        path = os.path.join(ROOT, "replays", f"{self.prop}-{n}.json")
        rec = {"property": self.prop, "component": component, "kind": kind,
               "what": what or kind, "detail": detail, "found_input": found_input,
               "seed": self.seed, "tier": self.tier, "case": replay,
               "replay_cmd": f"./check {self.prop} --replay {path}"}
        with open(path, "w") as f:
            json.dump(rec, f, indent=1, default=str)
        self.violations.append(rec)
        tail = "" if found_input else " no-failing-input-found"
        nconc = len([v for v in self.violations if v and v.get("found_input")])
        if n < 12 or (found_input and nconc <= 6):      # concrete failing inputs are always shown, however many broken obligations came first
            print(f"VIOLATION property={self.prop} replay={path}{tail}", flush=True)
            print(f"  component={component} kind={kind}: {str(what or detail)[:300]}", flush=True)
        elif n == 12:
            print(f"VIOLATION property={self.prop} replay={path}{tail} (further violations are written to replays/ only)", flush=True)

    def broken(self, kind, what, detail):
        """A proof obligation / correspondence that no longer checks and for which
        no concrete failing input was (yet) found."""
        self.violation("coq", kind, detail, {"obligation": what}, found_input=False, what=what)

    # ---- finish -----------------------------------------------------------
    def finish(self):
        nviol = len(self.violations)
        for f in self.known:
            hits = self.known_hits.get(f["id"], 0)
            print(f"KNOWN-FINDING: property={self.prop} {f['component']}: {f['what']} "
                  f"[{f['id']}; observed {hits}x in this run]", flush=True)
        disc = sum(1 for o in self.obligations if o["discharged"])
        cov = {
            "obligations": len(self.obligations),
            "discharged": disc,
            "checker_cmd": self.checker_cmd,
            "trusted_base": self.trusted,
            "theorems": self.obligations,
            "evaluations": self.evaluations,
            "distinct_nontrivial": len(self.nontrivial),
            "rule": self.extra.pop("rule", "see DESIGN.md"),
            "samples": self.samples or [{"note": "no sample recorded"}],
            "traces_validated_against_impl": self.evaluations,
            "per_component": dict(self.components),
            "input_distribution": dict(self.hist),
            "known_findings_observed": dict(self.known_hits),
        }
        cov.update(self.extra)
        ev = {
            "property_id": self.prop, "tier": self.tier, "seed": self.seed, "level": self.level,
            "coverage": cov, "assumptions": self.assume,
            "wall_s": round(time.time() - self.t0, 2), "violations": nviol,
        }
        # VERIF_KEEP_EVIDENCE=1 (runs against a deliberately modified tree, e.g. a seeded change): leave the committed evidence alone
        if os.environ.get("VERIF_KEEP_EVIDENCE") != "1":
            with open(os.path.join(ROOT, "evidence", f"{self.prop}.json"), "w") as f:
                json.dump(ev, f, indent=1, default=str)
        status = "OK" if nviol == 0 else "FAIL"
        print(f"{self.prop} {self.tier}: {status} obligations={disc}/{len(self.obligations)} "
              f"evaluations={self.evaluations} nontrivial={len(self.nontrivial)} "
              f"violations={nviol} wall={ev['wall_s']}s", flush=True)
        return 0 if nviol == 0 else 1
