#!/usr/bin/env python3
"""Regenerates MANIFEST.json from tools/manifest_src.json (claimed checks) + properties.jsonl."""
import json, os
R = os.path.dirname(os.path.dirname(os.path.abspath(__file__)))
src = json.load(open(os.path.join(R, "tools", "manifest_src.json")))
props = [json.loads(l)["id"] for l in open(os.path.join(R, "properties.jsonl"))]
checks = []
for pid in props:
    c = src["checks"].get(pid)
    if not c:
        continue
    checks.append({
        "property_id": pid,
        "quick_cmd": f"./check {pid} --tier quick",
        "thorough_cmd": f"./check {pid} --tier thorough",
        "evidence_file": f"/verif/evidence/{pid}.json",
        "replay_cmd_template": f"./check {pid} --replay {{path}}",
        "engine": "coq+correspondence",
        "level_claimed": {"category": c.get("category", "proof"), "text": c["text"], "design_ref": c.get("design_ref", f"DESIGN.md section 6, {pid}")},
        "level_note": c["note"],
        "technique": c["technique"],
    })
na = [{"property_id": p, "reason": src["not_applicable"].get(p, "check not built yet (work in progress in this round); no claim is made")}
      for p in props if p not in src["checks"]]
m = {
    "version": 1,
    "setup_cmd": "./setup.sh",
    "hooks": {"guard": "SKACTIVEML_VERIF", "enable": "no source hooks: the harness traces from outside (PYTHONPATH=/repo, monkeypatched recorders); the variable is exported by ./check for future hooks",
              "baseline_off_cmd": "cd /repo && /venv/bin/python -m pytest -ra -q -p no:cacheprovider --timeout=900 --continue-on-collection-errors",
              "source_commits": src.get("hook_commits", []), "add_only": True},
    "engines": [{"name": "coq+correspondence", "path": "/verif/check", "serves_properties": [c["property_id"] for c in checks],
                 "kind_free_text": "Coq 8.16.1 theorems over hand-written Gallina models (coq/), tied to /repo on every run by a correspondence check (model evaluated with vm_compute on the inputs the implementation ran on) and, for static tables, by ast translators that regenerate Coq tables from the source"}],
    "checks": checks,
    "not_applicable": na,
    "notes": src.get("notes", ""),
}
json.dump(m, open(os.path.join(R, "MANIFEST.json"), "w"), indent=1)
print("claimed:", [c["property_id"] for c in checks])
