#!/bin/bash
# tools/try_patch.sh <patch.diff> <Cxx> [Cyy ...] : apply to /repo, run the quick checks, undo
patch="$1"; shift
cd /repo && git apply "$patch" || { echo "PATCH DOES NOT APPLY"; exit 2; }
cd /verif
for p in "$@"; do
  ./check "$p" --tier quick 2>&1 | grep -E "^VIOLATION|^  component|quick:" | head -${LINES_MAX:-6}
done
git -C /repo checkout -- . 
git -C /repo status --short | grep -v '\.pdf' 
