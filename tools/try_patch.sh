#!/bin/bash
# tools/try_patch.sh <patch.diff> <Cxx> [Cyy ...] : apply to /repo, run the quick checks, undo
patch="$1"; shift
cd /repo && git apply "$patch" || { echo "PATCH DOES NOT APPLY"; exit 2; }
cd /verif
save=$(mktemp -d); cp evidence/*.json $save/ 2>/dev/null      # evidence of mutated runs must not replace the clean-tree evidence
for p in "$@"; do
  VERIF_KEEP_EVIDENCE=1 ./check "$p" --tier quick 2>&1 | grep -E "^VIOLATION|^  component|quick:" | head -${LINES_MAX:-6}
done
git -C /repo checkout -- . 
cp $save/*.json evidence/ 2>/dev/null; rm -rf $save
git -C /repo status --short | grep -v '\.pdf' 
