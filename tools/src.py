#!/usr/bin/env python3
"""print source of file (or of given Class.func names) with docstrings and blank lines removed"""
import ast, sys
path = sys.argv[1]; names = sys.argv[2:]
src = open(path).read(); tree = ast.parse(src); lines = src.split("\n")
skip = set()
for node in ast.walk(tree):
    if isinstance(node, (ast.FunctionDef, ast.ClassDef, ast.Module)) and node.body and isinstance(node.body[0], ast.Expr) and isinstance(getattr(node.body[0], "value", None), ast.Constant) and isinstance(node.body[0].value.value, str):
        d = node.body[0]
        skip.update(range(d.lineno, d.end_lineno + 1))
def emit(a, b):
    for i in range(a, b + 1):
        if i in skip or not lines[i - 1].strip() or lines[i - 1].strip().startswith("#"):
            continue
        print(f"{i}: {lines[i - 1]}")
if not names:
    emit(1, len(lines))
else:
    for node in ast.walk(tree):
        if isinstance(node, ast.ClassDef):
            for f in node.body:
                if isinstance(f, ast.FunctionDef) and (f"{node.name}.{f.name}" in names or f.name in names):
                    print(f"## {node.name}.{f.name}"); emit(f.lineno, f.end_lineno)
        elif isinstance(node, ast.FunctionDef) and node.name in names and node.col_offset == 0:
            print(f"## {node.name}"); emit(node.lineno, node.end_lineno)
