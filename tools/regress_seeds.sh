#!/bin/bash
# tools/regress_seeds.sh [seed-id ...] : applies every seeded change to the tree named by VERIF_REPO (default /repo), runs the quick
# check of the targeted property, restores the tree; one line per seed: applies? detected? concrete failing input?
R=${VERIF_REPO:-/repo}
cd "$(dirname "$0")/.."
ids="$@"; [ -z "$ids" ] && ids=$(ls seeded)
for id in $ids; do
  d=seeded/$id
  [ -f $d/patch.diff ] || continue
  prop=${id%%-*}
  if ! git -C $R apply --check $PWD/$d/patch.diff 2>/dev/null; then echo "$id APPLY-FAILS"; continue; fi
  git -C $R apply $PWD/$d/patch.diff
  out=$(VERIF_KEEP_EVIDENCE=1 ./check $prop --tier quick 2>&1)
  git -C $R checkout -- . 
  nv=$(echo "$out" | grep -c "^VIOLATION")
  nc=$(echo "$out" | grep "^VIOLATION" | grep -vc "no-failing-input-found")
  echo "$id prop=$prop violations=$nv concrete=$nc $( [ $nv -eq 0 ] && echo MISSED )"
done
