#!/bin/bash
# tools/try_patch_wt.sh <patch.diff> <Cxx> [Cyy ...] : apply the patch to a scratch worktree of /repo HEAD (never to /repo itself),
# run the quick checks against it (VERIF_REPO), remove the worktree.  Evidence is not written (VERIF_KEEP_EVIDENCE=1).
patch="$1"; shift
wt=/tmp/wt/try_$$
git -C /repo worktree add -q --detach $wt HEAD || exit 2
git -C $wt apply "$patch" || { echo "PATCH DOES NOT APPLY"; git -C /repo worktree remove --force $wt; exit 2; }
cd /verif
for p in "$@"; do
  VERIF_REPO=$wt VERIF_KEEP_EVIDENCE=1 ./check "$p" --tier quick 2>&1 | grep -E "^VIOLATION|^  component|quick:" | head -${LINES_MAX:-6}
done
git -C /repo worktree remove --force $wt
