#!/usr/bin/env python3
"""tools/write_meta.py <seed-id> <caught_by> <confirm-line> : writes seeded/<id>/meta.json from agent_meta.json"""
import json, sys, os
sid, caught, confirm = sys.argv[1], sys.argv[2], sys.argv[3]
d = f"/verif/seeded/{sid}"
a = json.load(open(f"{d}/agent_meta.json"))
m = {"property": a.get("property", sid.split("-")[0]), "summary": a.get("summary"), "needs_to_manifest": a.get("needs_to_manifest", a.get("needs")),
     "agent_tests_run": a.get("tests_run"),
     "confirmed_by_me": confirm,
     "how_confirmed": "tools/confirm_seed.sh: scratch worktree of /repo HEAD, demo.py exit status on the clean tree and with patch.diff applied, relevant pytest files with the patch applied",
     "detected_by": caught}
json.dump(m, open(f"{d}/meta.json", "w"), indent=1)
