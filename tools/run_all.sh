#!/bin/bash
# tools/run_all.sh <tier> <seed...> : setup + all checks, one summary line per check
tier="$1"; shift
./setup.sh > /dev/null 2>&1 || echo "SETUP FAILED"
for seed in "$@"; do
  for p in $(python3 -c "import json;print(' '.join(c['property_id'] for c in json.load(open('MANIFEST.json'))['checks']))"); do
    start=$(date +%s)
    VERIF_SEED=$seed ./check $p --tier $tier > ${RUNALL_OUT:-/tmp}/runall_$p.out 2>&1
    rc=$?
    echo "seed=$seed rc=$rc $(tail -1 ${RUNALL_OUT:-/tmp}/runall_$p.out | cut -c1-160)"
    if [ $rc -ne 0 ]; then grep -A1 "^VIOLATION" ${RUNALL_OUT:-/tmp}/runall_$p.out | head -8 | cut -c1-400; fi
  done
done
