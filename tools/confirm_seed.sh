#!/bin/bash
# tools/confirm_seed.sh <seed-id> "<pytest paths>" : confirm a seeded change in a scratch worktree
id="$1"; tests="$2"
d=/verif/seeded/$id
wt=/tmp/wt/confirm_$id
git -C /repo worktree add -q --detach $wt HEAD || exit 2
cd $wt
clean=$(PYTHONPATH=$wt /venv/bin/python -W ignore $d/demo.py >/dev/null 2>&1; echo $?)
git apply $d/patch.diff || { echo "patch does not apply"; applied=no; }
mut=$(PYTHONPATH=$wt /venv/bin/python -W ignore $d/demo.py >/dev/null 2>&1; echo $?)
tres=$(PYTHONPATH=$wt /venv/bin/python -m pytest -q -p no:cacheprovider -x $tests 2>&1 | tail -1)
cd /; git -C /repo worktree remove --force $wt
echo "$id demo_clean_exit=$clean demo_mutated_exit=$mut tests: $tests -> $tres"
