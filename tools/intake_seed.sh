#!/bin/bash
# tools/intake_seed.sh <seed-id> "<pytest paths>" <Cxx> [Cyy...] : copy a sub-agent's seed from /tmp/seedout, confirm it, run checks against it
id="$1"; tests="$2"; shift; shift
mkdir -p /verif/seeded/$id
cp /tmp/seedout/$id/patch.diff /tmp/seedout/$id/demo.py /tmp/seedout/$id/agent_meta.json /verif/seeded/$id/ || exit 2
/verif/tools/confirm_seed.sh $id "$tests"
LINES_MAX=${LINES_MAX:-4} /verif/tools/try_patch.sh /verif/seeded/$id/patch.diff "$@"
